// iohook.so — LD_PRELOAD I/O shim for level L2 (see DESIGN.md 5.2).
// Interposes write/pwrite/read/pread/lseek/ftruncate/fsync/fdatasync of the bita process.
// Path-suffix selected (via /proc/self/fd), scripted through environment variables:
//   IOHOOK_LOG=<file>                      append one line per watched event: op path offset len ret fnv
//   IOHOOK_WATCH=<suffix>[,<suffix>...]     paths to log
//   IOHOOK_DELAY=<op>:<suffix>:<usec>[:<k>][;...]   sleep before the matching call (every call, or only the k-th)
//   IOHOOK_FAIL=<op>:<suffix>:<k>:<errno>[;...]     k-th matching call fails with errno (nothing transferred)
//   IOHOOK_SHORT=<op>:<suffix>:<k>:<bytes>[;...]    k-th matching call transfers at most <bytes>
//   IOHOOK_KILL=<op>:<suffix>:<k>:<prefix|-1>       k-th matching call: transfer <prefix> bytes (or nothing), then _exit(137)
// k counts from 0 per rule. Counters are process-wide and atomic.
#define _GNU_SOURCE
#include <dlfcn.h>
#include <errno.h>
#include <fcntl.h>
#include <pthread.h>
#include <stdarg.h>
#include <stdint.h>
#include <stdio.h>
#include <stdlib.h>
#include <string.h>
#include <sys/types.h>
#include <unistd.h>

typedef ssize_t (*write_t)(int, const void *, size_t);
typedef ssize_t (*read_t)(int, void *, size_t);
typedef ssize_t (*pwrite_t)(int, const void *, size_t, off_t);
typedef ssize_t (*pread_t)(int, void *, size_t, off_t);
typedef off_t (*lseek_t)(int, off_t, int);
typedef int (*ftruncate_t)(int, off_t);
typedef int (*fsync_t)(int);

static write_t real_write;
static read_t real_read;
static pwrite_t real_pwrite;
static pread_t real_pread;
static lseek_t real_lseek;
static ftruncate_t real_ftruncate;
static fsync_t real_fsync, real_fdatasync;

enum { K_DELAY, K_FAIL, K_SHORT, K_KILL };
struct rule {
  int kind;
  char op[16];
  char suffix[256];
  long a;  // usec | k
  long b;  // k (-1 = every) | errno | bytes | prefix
  volatile long counter;
};
#define MAXRULES 32
static struct rule rules[MAXRULES];
static int nrules;
static char watch[8][256];
static int nwatch;
static int log_fd = -1;
static int inited;
static pthread_mutex_t mu = PTHREAD_MUTEX_INITIALIZER;
static __thread int reentry;

static void parse_rules(const char *env, int kind) {
  const char *s = getenv(env);
  if (!s || !*s) return;
  char *dup = strdup(s);
  char *save1 = NULL;
  for (char *tok = strtok_r(dup, ";", &save1); tok; tok = strtok_r(NULL, ";", &save1)) {
    if (nrules >= MAXRULES) break;
    struct rule *r = &rules[nrules];
    memset(r, 0, sizeof *r);
    r->kind = kind;
    char *save2 = NULL;
    char *f[4] = {0, 0, 0, 0};
    int n = 0;
    for (char *p = strtok_r(tok, ":", &save2); p && n < 4; p = strtok_r(NULL, ":", &save2)) f[n++] = p;
    if (n < 3) continue;
    strncpy(r->op, f[0], sizeof r->op - 1);
    strncpy(r->suffix, f[1], sizeof r->suffix - 1);
    r->a = atol(f[2]);
    r->b = (n >= 4) ? atol(f[3]) : -1;
    if (kind == K_DELAY && n < 4) r->b = -1;
    nrules++;
  }
  free(dup);
}

static void init(void) {
  if (inited) return;
  pthread_mutex_lock(&mu);
  if (!inited) {
    real_write = (write_t)dlsym(RTLD_NEXT, "write");
    real_read = (read_t)dlsym(RTLD_NEXT, "read");
    real_pwrite = (pwrite_t)dlsym(RTLD_NEXT, "pwrite64");
    real_pread = (pread_t)dlsym(RTLD_NEXT, "pread64");
    real_lseek = (lseek_t)dlsym(RTLD_NEXT, "lseek64");
    real_ftruncate = (ftruncate_t)dlsym(RTLD_NEXT, "ftruncate64");
    real_fsync = (fsync_t)dlsym(RTLD_NEXT, "fsync");
    real_fdatasync = (fsync_t)dlsym(RTLD_NEXT, "fdatasync");
    parse_rules("IOHOOK_DELAY", K_DELAY);
    parse_rules("IOHOOK_FAIL", K_FAIL);
    parse_rules("IOHOOK_SHORT", K_SHORT);
    parse_rules("IOHOOK_KILL", K_KILL);
    const char *w = getenv("IOHOOK_WATCH");
    if (w && *w) {
      char *dup = strdup(w), *save = NULL;
      for (char *p = strtok_r(dup, ",", &save); p && nwatch < 8; p = strtok_r(NULL, ",", &save)) strncpy(watch[nwatch++], p, 255);
      free(dup);
    }
    const char *lg = getenv("IOHOOK_LOG");
    if (lg && *lg) log_fd = open(lg, O_WRONLY | O_CREAT | O_APPEND | O_CLOEXEC, 0644);
    inited = 1;
  }
  pthread_mutex_unlock(&mu);
}

static int ends_with(const char *s, const char *suf) {
  size_t a = strlen(s), b = strlen(suf);
  return b <= a && memcmp(s + a - b, suf, b) == 0;
}

static int fd_path(int fd, char *buf, size_t n) {
  if (fd <= 2 || fd == log_fd) return 0;
  char link[64];
  snprintf(link, sizeof link, "/proc/self/fd/%d", fd);
  ssize_t r = readlink(link, buf, n - 1);
  if (r <= 0) return 0;
  buf[r] = 0;
  if (buf[0] != '/') return 0;  // sockets, pipes, anon inodes
  return 1;
}

static uint64_t fnv1a(const void *p, size_t n) {
  const unsigned char *b = p;
  uint64_t h = 1469598103934665603ULL;
  for (size_t i = 0; i < n; i++) {
    h ^= b[i];
    h *= 1099511628211ULL;
  }
  return h;
}

static int watched(const char *path) {
  for (int i = 0; i < nwatch; i++)
    if (ends_with(path, watch[i])) return 1;
  return 0;
}

static void log_event(const char *op, const char *path, long long off, long long len, long long ret, uint64_t h) {
  if (log_fd < 0) return;
  char line[512];
  int n = snprintf(line, sizeof line, "%s %s %lld %lld %lld %016llx\n", op, path, off, len, ret, (unsigned long long)h);
  if (n > 0) real_write(log_fd, line, (size_t)n);
}

// Returns: -2 proceed normally; otherwise *limit may be set (>=0) for a short transfer; kill/fail handled by caller.
struct verdict {
  int fail_errno;   // >0: fail
  long short_bytes; // >=0: limit
  long kill_prefix; // -2: no kill; -1: kill before; >=0 kill after prefix bytes
};

static struct verdict consult(const char *op, const char *path) {
  struct verdict v = {0, -1, -2};
  for (int i = 0; i < nrules; i++) {
    struct rule *r = &rules[i];
    if (strcmp(r->op, op) != 0 || !ends_with(path, r->suffix)) continue;
    long c = __sync_fetch_and_add(&r->counter, 1);
    switch (r->kind) {
      case K_DELAY:
        if (r->b < 0 || r->b == c) usleep((useconds_t)r->a);
        break;
      case K_FAIL:
        if (r->a == c) v.fail_errno = (int)r->b;
        break;
      case K_SHORT:
        if (r->a == c) v.short_bytes = r->b;
        break;
      case K_KILL:
        if (r->a == c) v.kill_prefix = r->b;
        break;
    }
  }
  return v;
}

ssize_t write(int fd, const void *buf, size_t count) {
  init();
  char path[512];
  if (reentry || !fd_path(fd, path, sizeof path)) return real_write(fd, buf, count);
  reentry = 1;
  struct verdict v = consult("write", path);
  long long off = (long long)real_lseek(fd, 0, SEEK_CUR);
  ssize_t ret;
  if (v.kill_prefix != -2) {
    size_t n = v.kill_prefix < 0 ? 0 : ((size_t)v.kill_prefix < count ? (size_t)v.kill_prefix : count);
    if (n > 0) real_write(fd, buf, n);
    if (watched(path)) log_event("write-killed", path, off, (long long)count, (long long)n, fnv1a(buf, n));
    _exit(137);
  }
  if (v.fail_errno > 0) {
    if (watched(path)) log_event("write-failed", path, off, (long long)count, -1, 0);
    reentry = 0;
    errno = v.fail_errno;
    return -1;
  }
  size_t n = count;
  if (v.short_bytes >= 0 && (size_t)v.short_bytes < n) n = (size_t)v.short_bytes;
  if (n == 0 && count > 0) n = 1;
  ret = real_write(fd, buf, n);
  if (watched(path)) log_event("write", path, off, (long long)count, (long long)ret, ret > 0 ? fnv1a(buf, (size_t)ret) : 0);
  reentry = 0;
  return ret;
}

ssize_t pwrite64(int fd, const void *buf, size_t count, off_t offset) {
  init();
  char path[512];
  if (reentry || !fd_path(fd, path, sizeof path)) return real_pwrite(fd, buf, count, offset);
  reentry = 1;
  struct verdict v = consult("write", path);
  if (v.kill_prefix != -2) {
    size_t n = v.kill_prefix < 0 ? 0 : ((size_t)v.kill_prefix < count ? (size_t)v.kill_prefix : count);
    if (n > 0) real_pwrite(fd, buf, n, offset);
    _exit(137);
  }
  if (v.fail_errno > 0) {
    reentry = 0;
    errno = v.fail_errno;
    return -1;
  }
  ssize_t ret = real_pwrite(fd, buf, count, offset);
  if (watched(path)) log_event("write", path, (long long)offset, (long long)count, (long long)ret, ret > 0 ? fnv1a(buf, (size_t)ret) : 0);
  reentry = 0;
  return ret;
}
ssize_t pwrite(int fd, const void *buf, size_t count, off_t offset) { return pwrite64(fd, buf, count, offset); }

ssize_t read(int fd, void *buf, size_t count) {
  init();
  char path[512];
  if (reentry || !fd_path(fd, path, sizeof path)) return real_read(fd, buf, count);
  reentry = 1;
  struct verdict v = consult("read", path);
  if (v.kill_prefix != -2) _exit(137);
  if (v.fail_errno > 0) {
    reentry = 0;
    errno = v.fail_errno;
    return -1;
  }
  size_t n = count;
  if (v.short_bytes >= 0 && (size_t)v.short_bytes < n) n = (size_t)v.short_bytes;
  if (n == 0 && count > 0) n = 1;
  long long off = watched(path) ? (long long)real_lseek(fd, 0, SEEK_CUR) : 0;
  ssize_t ret = real_read(fd, buf, n);
  if (watched(path)) log_event("read", path, off, (long long)count, (long long)ret, ret > 0 ? fnv1a(buf, (size_t)ret) : 0);
  reentry = 0;
  return ret;
}

ssize_t pread64(int fd, void *buf, size_t count, off_t offset) {
  init();
  char path[512];
  if (reentry || !fd_path(fd, path, sizeof path)) return real_pread(fd, buf, count, offset);
  reentry = 1;
  consult("read", path);
  ssize_t ret = real_pread(fd, buf, count, offset);
  if (watched(path)) log_event("read", path, (long long)offset, (long long)count, (long long)ret, ret > 0 ? fnv1a(buf, (size_t)ret) : 0);
  reentry = 0;
  return ret;
}
ssize_t pread(int fd, void *buf, size_t count, off_t offset) { return pread64(fd, buf, count, offset); }

off_t lseek64(int fd, off_t offset, int whence) {
  init();
  char path[512];
  if (reentry || !fd_path(fd, path, sizeof path)) return real_lseek(fd, offset, whence);
  reentry = 1;
  consult("lseek", path);
  off_t ret = real_lseek(fd, offset, whence);
  if (watched(path)) log_event("lseek", path, (long long)offset, (long long)whence, (long long)ret, 0);
  reentry = 0;
  return ret;
}
off_t lseek(int fd, off_t offset, int whence) { return lseek64(fd, offset, whence); }

int ftruncate64(int fd, off_t length) {
  init();
  char path[512];
  if (reentry || !fd_path(fd, path, sizeof path)) return real_ftruncate(fd, length);
  reentry = 1;
  struct verdict v = consult("ftruncate", path);
  if (v.kill_prefix != -2) _exit(137);
  if (v.fail_errno > 0) {
    reentry = 0;
    errno = v.fail_errno;
    return -1;
  }
  int ret = real_ftruncate(fd, length);
  if (watched(path)) log_event("ftruncate", path, (long long)length, 0, (long long)ret, 0);
  reentry = 0;
  return ret;
}
int ftruncate(int fd, off_t length) { return ftruncate64(fd, length); }

int fsync(int fd) {
  init();
  char path[512];
  if (reentry || !fd_path(fd, path, sizeof path)) return real_fsync(fd);
  reentry = 1;
  consult("fsync", path);
  int ret = real_fsync(fd);
  if (watched(path)) log_event("fsync", path, 0, 0, (long long)ret, 0);
  reentry = 0;
  return ret;
}
int fdatasync(int fd) {
  init();
  char path[512];
  if (reentry || !fd_path(fd, path, sizeof path)) return real_fdatasync(fd);
  reentry = 1;
  consult("fsync", path);
  int ret = real_fdatasync(fd);
  if (watched(path)) log_event("fdatasync", path, 0, 0, (long long)ret, 0);
  reentry = 0;
  return ret;
}
