//! C03 — in-place update is exact for every prior content of the output.
use crate::engine::*;
use crate::gen::*;
use crate::iod::MemOutput;
use crate::refs::reorder::{key, Cell, Interp};
use crate::scen::*;
use crate::util::block_on_simple;
use bitar::{ChunkIndex, CloneOutput, HashSum, ReorderOp, VerifiedChunk};
use proptest::prelude::*;
use serde::{Deserialize, Serialize};
use serde_json::Value;
use std::collections::HashMap;

pub struct C03;

/// A layout: chunk identities 0..K with sizes; prior and target are sequences of identity indexes.
/// Identities >= `sizes.len()` do not exist; by convention the generator uses a dedicated identity that
/// occurs only in the prior ("junk") and one that occurs only in the target ("archive-only").
#[derive(Clone, Debug, Serialize, Deserialize, PartialEq)]
pub struct Layout {
    pub sizes: Vec<u32>,
    pub prior: Vec<u8>,
    pub target: Vec<u8>,
    /// hash length of both indexes (8..=64; older replay files have none = 64)
    #[serde(default = "full_hash_len")]
    pub hash_len: usize,
}
fn full_hash_len() -> usize {
    64
}
/// hash lengths for abstract layouts: >= 8 so that up to 16 distinct contents keep distinct keys
pub fn layout_hash_len() -> impl Strategy<Value = usize> {
    prop_oneof![3 => Just(64usize), 2 => 8usize..=64, 1 => Just(8usize)]
}

pub struct Ident {
    pub bytes: Vec<u8>,
    pub verified: VerifiedChunk,
}

thread_local! {
    static IDENTS: std::cell::RefCell<HashMap<(u32, u32), std::rc::Rc<Ident>>> = std::cell::RefCell::new(HashMap::new());
}
fn make_ident(id: u32, size: u32) -> Ident {
    // content unique per (id, byte index): high nibble = id, low = index, plus id-specific salt
    let bytes: Vec<u8> = if size > 256 {
        // larger chunks: pseudo-random, so that no shifted copy of a chunk looks like the chunk (the formula below
        // has period 4096)
        let mut v = Vec::with_capacity(size as usize);
        SplitMix(((id as u64) << 32) ^ size as u64 ^ 0xC03).fill(&mut v, size as usize);
        v
    } else {
        (0..size).map(|i| ((id as u8 + 1) << 4) ^ (i as u8).wrapping_mul(7) ^ ((i >> 4) as u8)).collect()
    };
    let mut b = bytes;
    if size as usize >= 4 {
        b[0] = id as u8;
        b[1] = (id >> 8) as u8;
    }
    let verified = bitar::Chunk::from(b.clone()).verify();
    Ident { bytes: b, verified }
}
fn ident(id: u32, size: u32) -> std::rc::Rc<Ident> {
    if size > 5000 {
        // megabytes each: not cached
        return std::rc::Rc::new(make_ident(id, size));
    }
    IDENTS.with(|m| m.borrow_mut().entry((id, size)).or_insert_with(|| std::rc::Rc::new(make_ident(id, size))).clone())
}

pub struct LayoutRun {
    pub planned_stores: usize,
    pub overlapping_copies: usize,
    pub copies: usize,
    pub dup_dest: bool,
    pub partially_in_place: bool,
    pub in_place: usize,
    pub writes: Vec<crate::iod::WriteRec>,
    pub target_bytes: Vec<u8>,
    pub in_place_offsets: Vec<u64>,
    /// the final content is not the target (C03's verdict; C13 looks at the writes only)
    pub output_error: Option<String>,
}

/// Execute a layout through the real planner + executor and judge it.
pub fn run_layout(l: &Layout, hash_len: usize) -> Result<LayoutRun, String> {
    let k = l.sizes.len();
    let ids: Vec<std::rc::Rc<Ident>> = (0..k).map(|i| ident(i as u32, l.sizes[i])).collect();
    // distinct contents must have distinct (truncated) hashes, otherwise the case is outside the domain
    // (callers use sizes/ids that make contents distinct; hash_len >= 8)
    let mut prior_bytes = Vec::new();
    let mut output_index = ChunkIndex::new_empty(hash_len);
    let mut cells: Vec<Cell> = Vec::new();
    for &p in &l.prior {
        let id = &ids[p as usize];
        output_index.add_chunk(id.verified.hash().clone(), id.bytes.len(), &[prior_bytes.len() as u64]);
        for i in 0..id.bytes.len() {
            cells.push(Some((p as u32, i as u32)));
        }
        prior_bytes.extend_from_slice(&id.bytes);
    }
    let mut target_bytes = Vec::new();
    let mut clone_index = ChunkIndex::new_empty(hash_len);
    let mut target_offsets: Vec<(u8, u64)> = vec![];
    for &t in &l.target {
        let id = &ids[t as usize];
        clone_index.add_chunk(id.verified.hash().clone(), id.bytes.len(), &[target_bytes.len() as u64]);
        target_offsets.push((t, target_bytes.len() as u64));
        target_bytes.extend_from_slice(&id.bytes);
    }
    // which target locations already hold the right chunk
    let mut prior_offsets: Vec<(u8, u64)> = vec![];
    let mut o = 0u64;
    for &p in &l.prior {
        prior_offsets.push((p, o));
        o += ids[p as usize].bytes.len() as u64;
    }
    let in_place_offsets: Vec<u64> = target_offsets.iter().filter(|x| prior_offsets.contains(x)).map(|x| x.1).collect();

    // --- independent interpretation of the public plan (R4)
    let id_of: HashMap<Vec<u8>, u32> = (0..k)
        .map(|i| {
            let mut h = ids[i].verified.hash().clone();
            h.truncate(hash_len);
            (key(&h), i as u32)
        })
        .collect();
    let mut planned_stores = 0;
    let mut dup_dest = false;
    let (copies, overlapping) = {
        let mut ci = clone_index.clone();
        let _ = output_index.strip_chunks_already_in_place(&mut ci);
        let ops: Vec<ReorderOp> = output_index.reorder_ops(&ci);
        for op in &ops {
            match op {
                ReorderOp::StoreInMem { .. } => planned_stores += 1,
                ReorderOp::Copy { dest, .. } => dup_dest |= dest.len() >= 2,
            }
        }
        let mut it = Interp::new(cells);
        it.run(&ops, &id_of)?;
        (it.copies, it.overlapping_copies)
    };

    // --- the real executor
    let out = MemOutput::new(prior_bytes);
    let mut co = CloneOutput::new(out, clone_index);
    let oi = output_index.clone();
    block_on_simple(co.reorder_in_place(oi)).map_err(|e| format!("reorder_in_place failed: {}", e))?;
    // no reusable chunk may be left in the clone index
    for &p in &l.prior {
        let mut h = ids[p as usize].verified.hash().clone();
        h.truncate(hash_len);
        if co.chunks().contains(&h) {
            return Err(format!("left over: chunk {} is present in the prior output but still in the clone index after reordering", p));
        }
    }
    // fetch the rest "from the archive"
    let remaining: Vec<HashSum> = co.chunks().keys().cloned().collect();
    for h in remaining {
        let i = *id_of.get(&key(&h)).ok_or("harness: unknown hash in clone index")?;
        block_on_simple(co.feed(&ids[i as usize].verified)).map_err(|e| format!("feed failed: {}", e))?;
    }
    if !co.is_empty() {
        return Err("clone index not empty after feeding every remaining chunk".into());
    }
    let mut out = co.into_inner();
    out.set_len(target_bytes.len() as u64);
    let output_error = if out.data != target_bytes { Some(crate::util::describe_diff("output differs from target", &out.data, &target_bytes)) } else { None };
    // partial presence: some but not all target locations of a reusable chunk in place
    let mut partially = false;
    for i in 0..k as u8 {
        let t: Vec<u64> = target_offsets.iter().filter(|x| x.0 == i).map(|x| x.1).collect();
        let inp = t.iter().filter(|o| in_place_offsets.contains(o)).count();
        if inp > 0 && inp < t.len() {
            partially = true;
        }
    }
    Ok(LayoutRun {
        planned_stores,
        overlapping_copies: overlapping,
        copies,
        dup_dest,
        partially_in_place: partially,
        in_place: in_place_offsets.len(),
        writes: out.writes.clone(),
        target_bytes,
        in_place_offsets,
        output_error,
    })
}

fn classify(rec: &mut CaseRec, l: &Layout, r: &LayoutRun) {
    rec.nontrivial = r.overlapping_copies >= 1;
    rec.class_if(r.planned_stores > 0, "cycle_store_in_mem");
    rec.class_if(r.overlapping_copies > 0, "copy_overlaps_other_chunk");
    rec.class_if(r.dup_dest, "duplicate_destination");
    rec.class_if(r.partially_in_place, "chunk_partially_in_place");
    rec.class_if(r.in_place > 0, "chunk_in_place");
    let pl: u32 = l.prior.iter().map(|p| l.sizes[*p as usize]).sum();
    let tl: u32 = l.target.iter().map(|p| l.sizes[*p as usize]).sum();
    rec.class_if(pl > tl, "prior_longer");
    rec.class_if(pl < tl, "prior_shorter");
    rec.class_if(pl == tl, "prior_same_length");
    rec.class_if(l.hash_len < 64, "truncated_hash");
}

pub fn check_layout(l: &Layout, rec: &mut CaseRec) -> Result<(), String> {
    let r = run_layout(l, l.hash_len)?;
    if let Some(e) = &r.output_error {
        return Err(e.clone());
    }
    classify(rec, l, &r);
    Ok(())
}

/// all sequences of length <= n over `syms` symbols
fn sequences(n: usize, syms: &[u8]) -> Vec<Vec<u8>> {
    let mut out = vec![vec![]];
    let mut cur = vec![vec![]];
    for _ in 0..n {
        let mut next = vec![];
        for s in &cur {
            for &x in syms {
                let mut t: Vec<u8> = s.clone();
                t.push(x);
                next.push(t);
            }
        }
        out.extend(next.iter().cloned());
        cur = next;
    }
    out
}

fn random_layout_strategy() -> impl Strategy<Value = Layout> {
    (2usize..=12, any::<u64>()).prop_flat_map(|(k, _)| {
        (
            prop::collection::vec(prop_oneof![3 => 1u32..=4, 2 => 1u32..=16, 1 => 1u32..=200], k),
            prop::collection::vec(0u8..k as u8, 0..60),
            prop::collection::vec(0u8..k as u8, 0..60),
            layout_hash_len(),
        )
            .prop_map(|(sizes, prior, target, hash_len)| Layout { sizes, prior, target, hash_len })
    })
}
/// target = permutation-ish edit of the prior (many reusable chunks, many cycles)
fn shuffled_layout_strategy() -> impl Strategy<Value = Layout> {
    (3usize..=10).prop_flat_map(|k| {
        (
            prop::collection::vec(prop_oneof![1u32..=3, 1u32..=9], k),
            prop::collection::vec(0u8..k as u8, 2..40),
            prop::collection::vec((any::<u16>(), any::<u16>()), 0..12),
            prop::collection::vec((any::<u16>(), 0u8..k as u8), 0..4),
            layout_hash_len(),
        )
            .prop_map(|(sizes, prior, swaps, repl, hash_len)| {
                let mut target = prior.clone();
                for (a, b) in swaps {
                    let (i, j) = (idx(a, target.len()), idx(b, target.len()));
                    target.swap(i, j);
                }
                for (a, v) in repl {
                    let i = idx(a, target.len());
                    target[i] = v;
                }
                Layout { sizes, prior, target, hash_len }
            })
    })
}

/// Layouts with chunks above 1 MiB (and above tokio's 2 MiB file buffer) that move by less than their own size: the
/// executor has to behave like memmove for a chunk whose destination overlaps its own old location.
pub fn big_layout_strategy() -> impl Strategy<Value = Layout> {
    (
        prop::collection::vec(prop_oneof![2 => 1u32..=5000, 3 => 1_048_577u32..=3_200_000], 3..=5),
        1u32..=70_000,
        prop::collection::vec(1u8..5, 1..=4),
        prop::collection::vec((0u8..4, any::<u16>(), any::<u16>(), 0u8..5), 1..=3),
        layout_hash_len(),
    )
        .prop_map(|(mut sizes, small, prior, edits, hash_len)| {
            // identity 0 is always small: inserting or removing it shifts what follows by less than a big chunk's size
            sizes.insert(0, small);
            let k = sizes.len() as u8;
            let prior: Vec<u8> = prior.into_iter().map(|p| p % k).collect();
            let mut target = prior.clone();
            for (kind, a, b, v) in edits {
                match kind {
                    0 => target.insert(idx(a, target.len() + 1), 0),
                    1 if !target.is_empty() => {
                        target.remove(idx(a, target.len()));
                    }
                    2 if !target.is_empty() => {
                        let (i, j) = (idx(a, target.len()), idx(b, target.len()));
                        target.swap(i, j);
                    }
                    _ => target.insert(idx(a, target.len() + 1), v % k),
                }
            }
            Layout { sizes, prior, target, hash_len }
        })
}

fn check_big_layout(l: &Layout, rec: &mut CaseRec) -> Result<(), String> {
    let r = check_layout(l, rec);
    // a chunk > 1 MiB whose new place overlaps its own old place
    let mut po = vec![];
    let mut o = 0u64;
    for &p in &l.prior {
        po.push((p, o));
        o += l.sizes[p as usize] as u64;
    }
    let mut o = 0u64;
    let mut self_overlap = false;
    for &t in &l.target {
        let n = l.sizes[t as usize] as u64;
        self_overlap |= n > (1 << 20) && po.iter().any(|(p, at)| *p == t && *at != o && *at < o + n && o < *at + n);
        o += n;
    }
    rec.class_if(self_overlap, "chunk_over_1MiB_moved_by_less_than_its_size");
    rec.nontrivial = self_overlap;
    r
}

fn scenario_case(s: &Scenario, rec: &mut CaseRec) -> Result<(), String> {
    if !s.cfg.chunker.is_valid() {
        rec.excluded = Some("invalid_config".into());
        return Ok(());
    }
    let mut e = expectations(s);
    normalise_block_dev(s, &mut e);
    if e.collision {
        rec.excluded = Some("collision_guard".into());
        return Ok(());
    }
    let o = evaluate_l1(s, &e, vec![])?;
    o.report.result.clone().map_err(|x| format!("clone failed: {} (stage {})", x, o.report.stage))?;
    let out = o.report.output.as_ref().unwrap();
    check_final_output(s, &e, &out.data)?;
    if s.inplace && o.report.chunks_left_after_reorder != e.src_keys.len() - e.in_prior.len() {
        return Err(format!(
            "left over: {} chunks still in the clone index after reordering, expected {} (source chunks not present in the prior output)",
            o.report.chunks_left_after_reorder,
            e.src_keys.len() - e.in_prior.len()
        ));
    }
    classify_scenario(rec, s, &e);
    rec.level = Some("L1");
    rec.nontrivial = s.inplace && e.in_prior.len() > e.in_place_offsets.len();
    Ok(())
}

fn inplace_scenario_strategy() -> impl Strategy<Value = Scenario> {
    scenario_strategy(8, true, true).prop_map(|mut s| {
        if s.prior.is_some() {
            s.inplace = true;
        }
        s
    })
}

impl Prop for C03 {
    fn id(&self) -> &'static str {
        "C03"
    }
    fn meta(&self, _tier: Tier) -> Meta {
        Meta {
            rule: "variant 'exh': bounded-exhaustive layouts — 3 chunk identities with sizes from {1,2,3} (27 assignments) plus a junk identity (only in the prior output) and an archive-only identity (only in the target); prior and target are ALL sequences of <= N slots (N=4 quick, N=5 thorough) over 4 symbols; indexes are built through ChunkIndex::add_chunk from non-overlapping tilings, then the real planner/executor runs on an instrumented in-memory output and the remaining chunks are fed as from the archive. 'rand'/'shuf': random layouts of up to 60 slots over up to 12 identities, hash lengths 8..64. 'bigmove': layouts of <= 7 slots with chunks of 1-3.2 MB (above the 1 MiB read size and tokio's 2 MiB file buffer) shifted by a small chunk inserted or removed in front of them, so that a chunk's destination overlaps its own old location. 'scen': real content — prior output = edit-script derivative of the source, scanned by bitar's own chunker, all small configs, hash lengths 8..64, prior shorter/equal/longer, plus seeds. 'l2': the same scenarios through the real `bita clone --seed-output` (regular files and, through the hook, the block-device path), local and HTTP archives. Oracles: final bytes == target (resized), the public reorder plan interpreted by the independent cell interpreter R4 never reads a destroyed chunk, and no reusable chunk stays in the clone index. Non-trivial = at least one copy whose destination overlaps another chunk's location (exh/rand/shuf) or at least one chunk moved in place (scen); distinct by Blake2 of the canonical case.".into(),
            assumptions: vec!["indexes handed to the planner are non-overlapping tilings (the only shape a scan of the output can produce)".into()],
            ..Meta::default()
        }
    }
    fn run_worker(&self, cx: &mut WorkerCtx) {
        let t = cx.tier;
        let only = std::env::var("VERIF_ONLY").ok();
        if only.as_deref().map(|o| o.split(',').any(|v| v == "exh")).unwrap_or(true) {
            let n = t.pick(4usize, 5usize);
            // symbols: 0,1,2 reusable identities, 3 = junk (prior) / archive-only (target, identity 4)
            let pri = sequences(n, &[0, 1, 2, 3]);
            let tgt = sequences(n, &[0, 1, 2, 4]);
            let mut index = 0u64;
            let mut count = 0u64;
            'outer: for s0 in 1..=3u32 {
                for s1 in 1..=3u32 {
                    for s2 in 1..=3u32 {
                        let sizes = vec![s0, s1, s2, 1, 2];
                        for p in &pri {
                            index += 1;
                            if !cx.mine(index) {
                                continue;
                            }
                            for tg in &tgt {
                                count += 1;
                                let l = Layout { sizes: sizes.clone(), prior: p.clone(), target: tg.clone(), hash_len: 64 };
                                let key = blake2_64(&[b"exh", &[s0 as u8, s1 as u8, s2 as u8], p, &[0xff], tg]);
                                if !cx.eval_case("exh", &l, key, |rec| check_layout(&l, rec)) && cx.stats.failures.len() >= 3 {
                                    break 'outer;
                                }
                            }
                        }
                    }
                }
            }
            cx.set_exhaustive(&format!("layouts_3_identities_sizes_1to3_le_{}_slots", n), count);
        }
        cx.run_prop("rand", t.pick(300_000, 4_000_000), random_layout_strategy(), check_layout);
        cx.run_prop("shuf", t.pick(300_000, 4_000_000), shuffled_layout_strategy(), check_layout);
        cx.run_prop("bigmove", t.pick(192, 4000), big_layout_strategy(), check_big_layout);
        cx.run_prop("scen", t.pick(24_000, 400_000), inplace_scenario_strategy(), scenario_case);
        // the same scenarios through the real CLI (`bita clone --seed-output`): clone_cmd.rs has its own orchestration
        // of scan, reorder, seeds and resize, which the L1 mirror only imitates
        crate::props::l2scen::run_l2_variant(cx, "C03", t.pick(2400, 30_000), inplace_scenario_strategy().boxed(), |s, e, rec| {
            rec.nontrivial = s.inplace && e.in_prior.len() > e.in_place_offsets.len();
        });
    }
    fn replay(&self, _cx: &mut WorkerCtx, variant: &str, case: &Value) -> Result<(), String> {
        let mut rec = CaseRec::default();
        match variant {
            "l2" => crate::props::l2scen::replay_l2("C03", case, &mut rec),
            "scen" => scenario_case(&serde_json::from_value(case.clone()).map_err(|e| e.to_string())?, &mut rec),
            "bigmove" => check_big_layout(&serde_json::from_value(case.clone()).map_err(|e| e.to_string())?, &mut rec),
            _ => check_layout(&serde_json::from_value(case.clone()).map_err(|e| e.to_string())?, &mut rec),
        }
    }
}
