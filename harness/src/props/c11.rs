//! C11 — written archives conform to the documented format and report settings verbatim.
use crate::engine::*;
use crate::gen::*;
use crate::l1::{self, RtShape};
use crate::l2;
use crate::props::c01::{clean_dir, delay_strategy, worker_dir};
use crate::refs::format as fmt;
use crate::scen::*;
use crate::util::blake2b512;
use proptest::prelude::*;
use serde::{Deserialize, Serialize};
use serde_json::Value;
use std::collections::{BTreeMap, HashSet};
use std::sync::Arc;

pub struct C11;

#[derive(Clone, Debug, Serialize, Deserialize)]
pub struct Case {
    pub source: SourceSpec,
    pub cfg: ArchCfg,
    pub writer: Writer,
    pub metadata: Vec<MetaArg>,
    pub reads: ReadScript,
    pub rt: RtShape,
    pub delays: Vec<(String, String, u32, Option<u32>)>,
    /// CLI only: the archive path already holds a file of this many bytes (random content); compress runs with
    /// --force-create. The new archive must still end exactly at the end of its last stored chunk.
    #[serde(default)]
    pub overwrite: Option<u32>,
}

pub fn own_decompress(comp: u32, stored: &[u8]) -> Result<Vec<u8>, String> {
    match comp {
        3 => {
            let mut out = Vec::new();
            let mut inp = stored;
            brotli_decompressor::BrotliDecompress(&mut inp, &mut out).map_err(|e| format!("brotli: {}", e))?;
            Ok(out)
        }
        2 => zstd::stream::decode_all(stored).map_err(|e| format!("zstd: {}", e)),
        1 => lzma::decompress(stored).map_err(|e| format!("lzma: {}", e)),
        0 => Ok(stored.to_vec()),
        x => Err(format!("unknown compression type {}", x)),
    }
}

fn crate_version(manifest: &str) -> String {
    let s = std::fs::read_to_string(manifest).unwrap_or_default();
    for l in s.lines() {
        if let Some(v) = l.strip_prefix("version = ") {
            return v.trim().trim_matches('"').to_string();
        }
    }
    String::new()
}

/// Conformance of `archive` (as written for `source` with `cfg` and `metadata`) judged by R2 + R1.
pub fn conformance(archive: &[u8], source: &[u8], cfg: &ArchCfg, metadata: &BTreeMap<String, Vec<u8>>, writer: Writer, rec: &mut CaseRec) -> Result<fmt::Header, String> {
    let h = fmt::decode_header(archive).map_err(|e| format!("layout: {}", e))?;
    if h.legacy_magic {
        return Err("layout: writer produced the legacy magic".into());
    }
    if h.chunk_data_offset != h.header_len as u64 {
        return Err(format!("layout: chunk data offset field {} != header length {}", h.chunk_data_offset, h.header_len));
    }
    let d = &h.dictionary;
    if d.unknown_fields != 0 {
        return Err(format!("dictionary: {} fields not in chunk_dictionary.proto", d.unknown_fields));
    }
    let stored_total: u64 = d.chunk_descriptors.iter().map(|c| c.archive_size as u64).sum();
    if archive.len() as u64 != h.chunk_data_offset + stored_total {
        return Err(format!("layout: file length {} != chunk data offset {} + sum of stored sizes {}", archive.len(), h.chunk_data_offset, stored_total));
    }
    // descriptors
    let mut seen: HashSet<&[u8]> = HashSet::new();
    let mut acc = 0u64;
    for (i, c) in d.chunk_descriptors.iter().enumerate() {
        if c.checksum.len() != cfg.hash_len {
            return Err(format!("descriptor {}: checksum length {} != requested hash length {}", i, c.checksum.len(), cfg.hash_len));
        }
        if !seen.insert(&c.checksum[..]) {
            return Err(format!("descriptor {}: duplicate checksum", i));
        }
        if c.archive_offset != acc {
            return Err(format!("descriptor {}: archive_offset {} != running sum of stored sizes {}", i, c.archive_offset, acc));
        }
        if c.archive_size > c.source_size {
            return Err(format!("descriptor {}: stored size {} exceeds source size {}", i, c.archive_size, c.source_size));
        }
        if c.source_size == 0 {
            return Err(format!("descriptor {}: zero-sized chunk", i));
        }
        acc += c.archive_size as u64;
    }
    // rebuild order
    let mut next_new = 0u32;
    let mut total = 0u64;
    for (k, &ix) in d.rebuild_order.iter().enumerate() {
        if ix as usize >= d.chunk_descriptors.len() {
            return Err(format!("rebuild_order[{}] = {} out of range ({} descriptors)", k, ix, d.chunk_descriptors.len()));
        }
        if ix > next_new {
            return Err(format!("rebuild_order[{}] = {}: descriptors not in order of first occurrence (next new index is {})", k, ix, next_new));
        }
        if ix == next_new {
            next_new += 1;
        }
        total += d.chunk_descriptors[ix as usize].source_size as u64;
    }
    if next_new as usize != d.chunk_descriptors.len() {
        return Err(format!("descriptors: {} descriptors but only {} referenced by the rebuild order", d.chunk_descriptors.len(), next_new));
    }
    if total != d.source_total_size || total != source.len() as u64 {
        return Err(format!("sizes: sum over rebuild order {} / recorded source size {} / true source size {}", total, d.source_total_size, source.len()));
    }
    if d.source_checksum != blake2b512(source) {
        return Err("source_checksum is not Blake2b-512 of the source".into());
    }
    // settings recorded as requested
    let p = d.chunker_params.as_ref().ok_or("chunker_params missing")?;
    if p.chunk_hash_length as usize != cfg.hash_len {
        return Err(format!("params: hash length {} != requested {}", p.chunk_hash_length, cfg.hash_len));
    }
    let c = &cfg.chunker;
    match c.algo {
        Algo::FixedSize => {
            if p.chunking_algorithm != 2 || p.max_chunk_size as usize != c.max {
                return Err(format!("params: fixed size {:?} recorded as {:?}", c, p));
            }
        }
        _ => {
            let want_algo = if c.algo == Algo::BuzHash { 0 } else { 1 };
            if p.chunking_algorithm != want_algo
                || p.chunk_filter_bits != c.bits
                || p.min_chunk_size as usize != c.min
                || p.max_chunk_size as usize != c.max
                || p.rolling_hash_window_size as usize != c.window
            {
                return Err(format!("params: requested {:?} recorded {:?}", c, p));
            }
        }
    }
    let cc = d.chunk_compression.as_ref().ok_or("chunk_compression missing")?;
    let want_cc = match cfg.comp {
        Comp::None => (0, None),
        Comp::Lzma(l) => (1, Some(l)),
        Comp::Zstd(l) => (2, Some(l)),
        Comp::Brotli(l) => (3, Some(l)),
    };
    if cc.compression != want_cc.0 || want_cc.1.map(|l| l != cc.compression_level).unwrap_or(false) {
        return Err(format!("compression: requested {:?} recorded {:?}", cfg.comp, cc));
    }
    if d.metadata != *metadata {
        return Err(format!("metadata: requested {:?} recorded {:?}", metadata.keys().collect::<Vec<_>>(), d.metadata.keys().collect::<Vec<_>>()));
    }
    let want_version = match writer {
        Writer::Lib => crate_version(&format!("{}/bitar/Cargo.toml", crate::engine::repo_root())),
        _ => crate_version(&format!("{}/Cargo.toml", crate::engine::repo_root())),
    };
    if d.application_version != want_version {
        return Err(format!("application_version {:?} != crate version {:?}", d.application_version, want_version));
    }
    // chunk order and content against R1 + the harness's own hash and codecs
    let model = model_chunks(c, source);
    if model.len() != d.rebuild_order.len() {
        return Err(format!("chunks: rebuild order has {} entries, the reference chunker yields {} chunks", d.rebuild_order.len(), model.len()));
    }
    let mut verified_descr = vec![false; d.chunk_descriptors.len()];
    for (k, (m, &ix)) in model.iter().zip(d.rebuild_order.iter()).enumerate() {
        let cd = &d.chunk_descriptors[ix as usize];
        if cd.source_size as usize != m.len {
            return Err(format!("chunks: source chunk {} has size {} but the reference chunker cuts {}", k, cd.source_size, m.len));
        }
        if cd.checksum[..] != m.full[..cfg.hash_len] {
            return Err(format!("chunks: source chunk {} at {}: descriptor checksum is not the truncated Blake2b-512 of the chunk", k, m.off));
        }
        if !verified_descr[ix as usize] {
            verified_descr[ix as usize] = true;
            let start = (h.chunk_data_offset + cd.archive_offset) as usize;
            let stored = &archive[start..start + cd.archive_size as usize];
            let plain = if cd.archive_size == cd.source_size { stored.to_vec() } else { own_decompress(cc.compression, stored).map_err(|e| format!("stored chunk {}: {}", ix, e))? };
            if plain != source[m.off..m.off + m.len] {
                return Err(format!("stored chunk {} does not decode to the source chunk at {}", ix, m.off));
            }
        }
    }
    rec.class_if(d.rebuild_order.len() > d.chunk_descriptors.len(), "duplicate_chunk");
    rec.class_if(!metadata.is_empty(), "metadata");
    rec.class_if(metadata.keys().any(|k| k.is_empty()), "empty_key");
    rec.class_if(metadata.values().any(|v| v.is_empty()), "empty_value");
    rec.class_if(metadata.values().any(|v| std::str::from_utf8(v).is_err()), "binary_value");
    rec.class(format!("{:?}", writer));
    rec.nontrivial = (d.chunk_descriptors.len() >= 2 && d.rebuild_order.len() > d.chunk_descriptors.len()) || !metadata.is_empty();
    Ok(h)
}

/// What bitar's own reader reports back (Archive accessors) must equal the recorded values.
pub fn reader_reports(archive: &Arc<Vec<u8>>, h: &fmt::Header, cfg: &ArchCfg, metadata: &BTreeMap<String, Vec<u8>>) -> Result<(), String> {
    let (reader, _) = l1::local_reader(archive.clone(), ReadScript::full());
    let a = crate::util::block_on(bitar::Archive::try_init(reader)).map_err(|e| format!("reader: try_init failed on a fresh archive: {}", e))?;
    let d = &h.dictionary;
    let got_cfg = ChunkerCfg::from_bitar(a.chunker_config());
    let c = &cfg.chunker;
    let same = match c.algo {
        Algo::FixedSize => got_cfg.algo == Algo::FixedSize && got_cfg.max == c.max,
        _ => got_cfg == *c,
    };
    if !same {
        return Err(format!("reader: chunker_config {:?} != requested {:?}", got_cfg, c));
    }
    if a.chunk_hash_length() != cfg.hash_len {
        return Err(format!("reader: chunk_hash_length {} != {}", a.chunk_hash_length(), cfg.hash_len));
    }
    if a.chunk_compression() != cfg.comp.to_bitar() {
        return Err(format!("reader: chunk_compression {:?} != requested {:?}", a.chunk_compression(), cfg.comp));
    }
    let md: BTreeMap<String, Vec<u8>> = a.metadata_iter().map(|(k, v)| (k.to_string(), v.to_vec())).collect();
    if md != *metadata {
        return Err("reader: metadata_iter differs from the requested metadata".into());
    }
    for (k, v) in metadata {
        if a.metadata_value(k) != Some(&v[..]) {
            return Err(format!("reader: metadata_value({:?}) wrong", k));
        }
    }
    if a.total_source_size() != d.source_total_size || a.source_checksum().slice() != &d.source_checksum[..] {
        return Err("reader: source size / checksum differ from the header".into());
    }
    if a.unique_chunks() != d.chunk_descriptors.len() || a.total_chunks() != d.rebuild_order.len() {
        return Err("reader: chunk counts differ from the header".into());
    }
    if a.header_size() != h.header_len || a.chunk_data_offset() != h.chunk_data_offset || a.header_checksum().slice() != &h.checksum[..] {
        return Err("reader: header size / offset / checksum differ".into());
    }
    if a.built_with_version() != d.application_version {
        return Err("reader: built_with_version differs".into());
    }
    if a.compressed_size() != d.chunk_descriptors.iter().map(|c| c.archive_size as u64).sum::<u64>() {
        return Err("reader: compressed_size differs".into());
    }
    Ok(())
}

fn last_number_before_bytes(s: &str) -> Option<u64> {
    // "12.3 KiB (12595 bytes)" or "17 bytes"
    let s = s.trim();
    let s = s.strip_suffix(')').unwrap_or(s);
    let s = s.strip_suffix(" bytes")?;
    let num = s.rsplit(|c: char| !c.is_ascii_digit()).next()?;
    num.parse().ok()
}

/// `bita info` must report the same values.
pub fn info_reports(dir: &std::path::Path, arch_name: &str, h: &fmt::Header, cfg: &ArchCfg, metadata: &BTreeMap<String, Vec<u8>>) -> Result<(), String> {
    let r = l2::run_bita(dir, &l2::RunSpec { args: vec!["info".into(), arch_name.into()], ..Default::default() });
    if !r.ok() {
        return Err(format!("bita info failed: {}", r.describe()));
    }
    let out = String::from_utf8_lossy(&r.stdout).to_string();
    let field = |name: &str| -> Option<String> { out.lines().find_map(|l| l.trim_start().strip_prefix(name).map(|v| v.trim().to_string())) };
    let d = &h.dictionary;
    let expect = |name: &str, want: String| -> Result<(), String> {
        match field(name) {
            Some(v) if v == want => Ok(()),
            other => Err(format!("bita info: {:?} reported as {:?}, expected {:?}", name, other, want)),
        }
    };
    expect("Header checksum:", hex::encode(&h.checksum))?;
    expect("Source checksum:", hex::encode(&d.source_checksum))?;
    expect("Chunk hash length:", format!("{} bytes", cfg.hash_len))?;
    expect("Built with version:", d.application_version.clone())?;
    expect("Chunks in source:", format!("{} (unique: {})", d.rebuild_order.len(), d.chunk_descriptors.len()))?;
    let comp = match cfg.comp {
        Comp::None => "None".to_string(),
        Comp::Brotli(l) => format!("Brotli (level {})", l),
        Comp::Zstd(l) => format!("zstd (level {})", l),
        Comp::Lzma(l) => format!("LZMA (level {})", l),
    };
    expect("Chunk compression:", comp)?;
    let c = &cfg.chunker;
    match c.algo {
        Algo::FixedSize => {
            expect("Chunking algorithm:", "Fixed Size".into())?;
            let v = field("Fixed chunk size:").and_then(|s| last_number_before_bytes(&s));
            if v != Some(c.max as u64) {
                return Err(format!("bita info: fixed chunk size reported {:?}, expected {}", v, c.max));
            }
        }
        _ => {
            expect("Chunking algorithm:", if c.algo == Algo::BuzHash { "BuzHash".into() } else { "RollSum".into() })?;
            for (name, want) in [("Rolling hash window size:", c.window), ("Chunk minimum size:", c.min), ("Chunk maximum size:", c.max)] {
                let v = field(name).and_then(|s| last_number_before_bytes(&s));
                if v != Some(want as u64) {
                    return Err(format!("bita info: {} reported {:?}, expected {}", name, v, want));
                }
            }
            let mask = field("Chunk average target size:").and_then(|s| s.split("mask: ").nth(1).map(|m| m.trim_end_matches(')').to_string()));
            let want_mask = format!("{:#b}", (1u64 << c.bits) - 1);
            if mask.as_deref() != Some(&want_mask) {
                return Err(format!("bita info: filter mask reported {:?}, expected {}", mask, want_mask));
            }
        }
    }
    let v = field("Source size:").and_then(|s| last_number_before_bytes(&s));
    if v != Some(d.source_total_size) {
        return Err(format!("bita info: source size reported {:?}, expected {}", v, d.source_total_size));
    }
    let md = field("Metadata:").unwrap_or_default();
    let want_md = if metadata.is_empty() { "None".to_string() } else { metadata.iter().map(|(k, v)| format!("{}({})", k, v.len())).collect::<Vec<_>>().join(", ") };
    if md != want_md.trim() {
        return Err(format!("bita info: metadata reported {:?}, expected {:?}", md, want_md));
    }
    // --metadata-key prints the raw value
    for (k, v) in metadata.iter().take(2) {
        if k.is_empty() || k.starts_with('-') {
            continue;
        }
        let r = l2::run_bita(dir, &l2::RunSpec { args: vec!["info".into(), "--metadata-key".into(), k.clone(), arch_name.into()], ..Default::default() });
        if !r.ok() || r.stdout != *v {
            return Err(format!("bita info --metadata-key {:?}: expected {} value bytes, got {} ({})", k, v.len(), r.stdout.len(), r.describe()));
        }
    }
    Ok(())
}

fn run_case(c: &Case, rec: &mut CaseRec) -> Result<(), String> {
    if !c.cfg.chunker.is_valid() {
        rec.excluded = Some("invalid_config".into());
        return Ok(());
    }
    let source = Arc::new(expand(&c.source));
    let md = metadata_map(&c.metadata);
    match c.writer {
        Writer::Lib => {
            let rt = c.rt.build();
            let archive = rt.block_on(l1::compress_lib(source.clone(), &c.cfg, c.reads.clone(), &md))?;
            drop(rt);
            let h = conformance(&archive, &source, &c.cfg, &md, Writer::Lib, rec)?;
            reader_reports(&Arc::new(archive), &h, &c.cfg, &md)?;
            rec.level = Some("L1");
        }
        Writer::Cli | Writer::CliStdin => {
            if !l2::cli_expressible(&c.cfg.chunker) {
                rec.excluded = Some("not_cli_expressible".into());
                return Ok(());
            }
            let dir = worker_dir("C11");
            let hook = if c.delays.is_empty() { None } else { Some(l2::Hook { delay: c.delays.clone(), ..Default::default() }) };
            let r: Result<(), String> = (|| {
                let existing = c.overwrite.map(|n| {
                    let mut v = Vec::new();
                    SplitMix(n as u64).fill(&mut v, n as usize);
                    v
                });
                // every other overwrite case also finds a stale temporary chunk file of an earlier failed run
                let stale: Option<Vec<u8>> = c.overwrite.filter(|n| n % 2 == 1).map(|n| {
                    let mut v = Vec::new();
                    SplitMix(n as u64 ^ 0x51A1E).fill(&mut v, 3 * n as usize + 17);
                    v
                });
                let (archive, _) = compress_cli_over(&dir, "a", &source, &c.cfg, c.writer == Writer::CliStdin, &c.metadata, hook.as_ref(), existing.as_deref(), stale.as_deref())?;
                rec.class_if(stale.is_some(), "stale_temp_file_present");
                let h = conformance(&archive, &source, &c.cfg, &md, c.writer, rec)?;
                reader_reports(&Arc::new(archive), &h, &c.cfg, &md)?;
                info_reports(&dir, "a.cba", &h, &c.cfg, &md)?;
                // a successful compress leaves no temp file behind (also C16)
                Ok(())
            })();
            clean_dir(&dir);
            r?;
            rec.level = Some("L2");
            rec.class_if(!c.delays.is_empty(), "delay_script");
            rec.class_if(c.overwrite.is_some(), "force_create_over_existing_file");
        }
    }
    Ok(())
}

fn key_strategy() -> impl Strategy<Value = String> {
    prop_oneof![
        1 => Just(String::new()),
        4 => "[a-zA-Z0-9_. ]{1,8}",
        1 => Just("ключ-é".to_string()),
        1 => Just("k".to_string()),
        // long keys with multi-byte characters at any byte position (keys are arbitrary strings)
        2 => ("[a-z]{0,70}", "[éß✓ж𝄞]{1,3}", "[a-z._ ]{0,12}").prop_map(|(a, b, c)| format!("{}{}{}", a, b, c)),
    ]
}
pub fn metadata_strategy(cli: bool) -> impl Strategy<Value = Vec<MetaArg>> {
    let val = prop_oneof![
        1 => Just(String::new()),
        3 => "[a-zA-Z0-9_. =:/]{0,24}",
        1 => Just("värde ✓".to_string()),
    ];
    let file = prop_oneof![
        1 => Just(vec![]),
        2 => prop::collection::vec(any::<u8>(), 0..64),
        1 => prop::collection::vec(any::<u8>(), 200..400),
    ];
    let one = prop_oneof![
        (key_strategy(), val).prop_map(|(k, v)| MetaArg::Value(k, v)),
        (key_strategy(), file).prop_map(|(k, v)| MetaArg::File(k, v)),
    ];
    let _ = cli;
    prop_oneof![2 => Just(vec![]), 3 => prop::collection::vec(one, 1..5)]
}

fn case_strategy() -> impl Strategy<Value = Case> {
    (
        prop_oneof![4 => source_strategy(6, 2000), 1 => zero_heavy_strategy(6, 400)],
        prop_oneof![1 => Just(Writer::Lib), 1 => Just(Writer::Cli), 1 => Just(Writer::CliStdin)],
        small_chunker_strategy(),
        l2::cli_chunker_strategy(),
        hash_len_strategy(4),
        comp_strategy(),
        buffers_strategy(),
        metadata_strategy(true),
        read_script_strategy(),
        l1::rt_shape_strategy(),
        delay_strategy(),
        prop_oneof![3 => Just(None), 1 => (0u32..200).prop_map(Some), 2 => (200u32..40_000).prop_map(Some)],
    )
        .prop_map(|(source, writer, small, cli, hash_len, comp, buffers, metadata, reads, rt, delays, overwrite)| {
            let chunker = if writer == Writer::Lib { small } else { cli };
            let comp = if writer != Writer::Lib {
                // keep the CLI part cheap: light levels
                match comp {
                    Comp::Brotli(l) => Comp::Brotli(l.min(6)),
                    Comp::Zstd(l) => Comp::Zstd(l.min(6)),
                    Comp::Lzma(l) => Comp::Lzma(l.min(2)),
                    c => c,
                }
            } else {
                comp
            };
            Case { source, cfg: ArchCfg { chunker, hash_len, comp, buffers }, writer, metadata, reads, rt, delays, overwrite }
        })
}

/// chunks of 1 MiB and more (stored sizes above the writers' internal buffers), both writers
fn big_case_strategy() -> impl Strategy<Value = Case> {
    (
        prop_oneof![
            (1_050_000usize..=2_300_000).prop_map(|n| ChunkerCfg { algo: Algo::FixedSize, bits: 0, min: 0, max: n, window: 0 }),
            Just(ChunkerCfg { algo: Algo::RollSum, bits: 15, min: 16 * 1024, max: 16 * 1024 * 1024, window: 64 }),
            Just(ChunkerCfg { algo: Algo::BuzHash, bits: 12, min: 4096, max: 2 * 1024 * 1024, window: 16 }),
        ],
        any::<u32>(),
        prop_oneof![Just(Comp::None), Just(Comp::Brotli(1)), Just(Comp::Zstd(1))],
        prop_oneof![Just(Writer::Lib), Just(Writer::Cli), Just(Writer::CliStdin)],
        prop_oneof![Just(1usize), Just(3), Just(8)],
        0u8..3,
    )
        .prop_map(|(chunker, seed, comp, writer, buffers, shape)| {
            let source = match shape {
                // small chunks first, then a long constant run (one huge chunk), then small ones again
                0 => vec![Seg::Text { n: 60_000, seed }, Seg::Const { b: 0xee, n: 2_400_000 }, Seg::Random { n: 80_000, seed }],
                // compressible then incompressible
                1 => vec![Seg::Const { b: 0, n: 1_300_000 }, Seg::Random { n: 2_500_000, seed }],
                _ => vec![Seg::Random { n: 200_000, seed }, Seg::Const { b: 7, n: 1_200_000 }, Seg::CopyOf { at: 100, len: 900_000 }],
            };
            Case { source, cfg: ArchCfg { chunker, hash_len: 64, comp, buffers }, writer, metadata: vec![], reads: ReadScript { sizes: vec![1 << 20, 50_000], pending_every: 0 }, rt: RtShape { multi: true, workers: 2, blocking: 4 }, delays: vec![], overwrite: None }
        })
}

impl Prop for C11 {
    fn id(&self) -> &'static str {
        "C11"
    }
    fn meta(&self, _tier: Tier) -> Meta {
        Meta {
            rule: "cases = (source spec, config, writer in {library, CLI file, CLI stdin}, metadata args incl. empty key/value, binary file values and duplicate keys, read script / runtime shape / syscall delay script). The archive bytes are judged by the independent decoder R2 (layout, offsets, sizes, uniqueness, first-occurrence order, rebuild sums, recorded settings and metadata), the chunk sequence by the reference chunker R1 and the harness's own Blake2 and decompressors, then bitar's Archive accessors and `bita info` / `bita info --metadata-key` must report the same values. Non-trivial = (>=2 descriptors and a rebuild order longer than the descriptor list) or non-empty metadata; distinct by Blake2 of the canonical case.".into(),
            assumptions: vec![
                "for FixedSize only the algorithm and max_chunk_size fields are judged (the .proto comment documents only those); for compression NONE the level field is not judged".into(),
                "metadata keys/values on the CLI are restricted to what clap accepts as option values (no leading '-', no NUL); binary values go through --metadata-file".into(),
            ],
            ..Meta::default()
        }
    }
    fn run_worker(&self, cx: &mut WorkerCtx) {
        let t = cx.tier;
        cx.run_prop("conf", t.pick(6000, 120_000), case_strategy(), run_case);
        cx.run_prop("big", t.pick(32, 600), big_case_strategy(), |c, rec| {
            run_case(c, rec)?;
            rec.class("chunk_of_1MiB_or_more");
            Ok(())
        });
        let dir = worker_dir("C11");
        let _ = std::fs::remove_dir_all(dir);
    }
    fn replay(&self, _cx: &mut WorkerCtx, _variant: &str, case: &Value) -> Result<(), String> {
        let c: Case = serde_json::from_value(case.clone()).map_err(|e| e.to_string())?;
        let mut rec = CaseRec::default();
        let n = if c.writer == Writer::Lib { 1 } else { 5 };
        for _ in 0..n {
            run_case(&c, &mut rec)?;
        }
        Ok(())
    }
}
