//! C16 — clone writes no file but the output; compress leaves only the archive.
use crate::engine::*;
use crate::gen::*;
use crate::l2;
use crate::props::c01::{clean_dir, worker_dir};
use crate::scen::*;
use proptest::prelude::*;
use serde::{Deserialize, Serialize};
use serde_json::Value;
use std::collections::{BTreeMap, BTreeSet};
use std::path::{Path, PathBuf};
use std::sync::Arc;

pub struct C16;

#[derive(Clone, Debug, Serialize, Deserialize)]
pub struct CloneCase {
    pub scen: Scenario,
    pub http: bool,
    pub stdin_seed: Option<u8>,
    pub verify_output: bool,
    pub verify_header: bool,
    /// a clone that (probably) FAILS: 0 = none, 1 = last byte of the archive flipped (the last stored chunk does not
    /// verify), 2 = archive cut short by a few bytes, 3 = --verify-header with a wrong checksum. The rules about which
    /// files may be touched hold for failing clones just the same; whether the run fails is not judged here.
    #[serde(default)]
    pub fault: u8,
    /// where the output path points: 0 = the working directory, 1 = an existing sub-directory, 2 = a directory that does
    /// not exist (only without prior output; the clone is expected to fail - creating the directory would be creating
    /// something besides the output)
    #[serde(default)]
    pub out_dir: u8,
}

#[derive(Clone, Debug, Serialize, Deserialize)]
pub struct CompressCase {
    pub source: SourceSpec,
    pub cfg: ArchCfg,
    pub stdin: bool,
    pub force_over_existing: bool,
    pub metadata: Vec<MetaArg>,
    /// output name has no extension / several dots (temp name is derived from it)
    pub out_name: u8,
    /// a file of this many bytes already sits at the temp path (left by an earlier compress that failed or was killed)
    #[serde(default)]
    pub stale_tmp: Option<u32>,
}

#[derive(Debug, Clone)]
pub struct Sys {
    pub name: String,
    pub paths: Vec<String>,
    pub flags: String,
    pub ok: bool,
    pub ret: String,
}

/// Parse `strace -f -y -o` output lines for the traced file syscalls.
pub fn parse_strace(text: &str) -> Vec<Sys> {
    let mut out = vec![];
    // join "unfinished ... resumed" pairs per pid
    let mut pending: BTreeMap<String, String> = BTreeMap::new();
    for line in text.lines() {
        let (pid, rest) = match line.split_once(' ') {
            Some((p, r)) if p.chars().all(|c| c.is_ascii_digit()) => (p.to_string(), r.trim_start().to_string()),
            _ => ("0".to_string(), line.to_string()),
        };
        let full = if rest.contains("<unfinished ...>") {
            pending.insert(pid, rest.replace("<unfinished ...>", ""));
            continue;
        } else if rest.starts_with("<... ") {
            let tail = rest.splitn(2, "resumed>").nth(1).unwrap_or("").to_string();
            match pending.remove(&pid) {
                Some(h) => format!("{}{}", h.trim_end(), tail),
                None => continue,
            }
        } else {
            rest
        };
        let Some(p) = full.find('(') else { continue };
        let name = full[..p].trim().to_string();
        if name.starts_with("+++") || name.starts_with("---") {
            continue;
        }
        let Some(eq) = full.rfind(" = ") else { continue };
        let args = &full[p + 1..eq];
        let ret = full[eq + 3..].trim().to_string();
        let ok = !ret.starts_with("-1");
        // quoted strings
        let mut paths = vec![];
        let b = args.as_bytes();
        let mut i = 0;
        while i < b.len() {
            if b[i] == b'"' {
                let mut j = i + 1;
                let mut s = String::new();
                while j < b.len() && b[j] != b'"' {
                    if b[j] == b'\\' && j + 1 < b.len() {
                        s.push(b[j + 1] as char);
                        j += 2;
                    } else {
                        s.push(b[j] as char);
                        j += 1;
                    }
                }
                paths.push(s);
                i = j + 1;
            } else {
                i += 1;
            }
        }
        // fd annotations: 7</path>
        if name.starts_with("ftruncate") {
            if let (Some(a), Some(z)) = (args.find('<'), args.find('>')) {
                paths.push(args[a + 1..z].to_string());
            }
        }
        out.push(Sys { name, paths, flags: args.to_string(), ok, ret });
    }
    out
}

fn abs(dir: &Path, p: &str) -> String {
    let pb = if p.starts_with('/') { PathBuf::from(p) } else { dir.join(p) };
    // normalise without touching the file system
    let mut parts: Vec<String> = vec![];
    for c in pb.components() {
        match c {
            std::path::Component::ParentDir => {
                parts.pop();
            }
            std::path::Component::CurDir => {}
            std::path::Component::RootDir => {}
            other => parts.push(other.as_os_str().to_string_lossy().to_string()),
        }
    }
    format!("/{}", parts.join("/"))
}

fn ignorable(p: &str) -> bool {
    p == "/dev/null" || p == "/dev/tty" || p.starts_with("/proc/") || p.starts_with("/sys/") || p.starts_with("pipe:") || p.starts_with("socket:") || p.starts_with("anon_inode:") || p == "/dev/urandom" || p == "/dev/random"
}

pub struct Effects {
    /// paths opened for writing / created / truncated (successful calls)
    pub written: BTreeSet<String>,
    pub created: BTreeSet<String>,
    pub removed: BTreeSet<String>,
    pub renamed: Vec<(String, String)>,
    pub other: Vec<String>,
    pub opened_readonly: BTreeSet<String>,
}

pub fn effects(dir: &Path, sys: &[Sys]) -> Effects {
    let mut e = Effects { written: BTreeSet::new(), created: BTreeSet::new(), removed: BTreeSet::new(), renamed: vec![], other: vec![], opened_readonly: BTreeSet::new() };
    for s in sys.iter().filter(|s| s.ok) {
        match s.name.as_str() {
            "open" | "openat" | "openat2" | "creat" => {
                let Some(p) = s.paths.first() else { continue };
                let p = abs(dir, p);
                if ignorable(&p) {
                    continue;
                }
                let f = &s.flags;
                let write = s.name == "creat" || f.contains("O_WRONLY") || f.contains("O_RDWR") || f.contains("O_CREAT") || f.contains("O_TRUNC") || f.contains("O_APPEND");
                if write {
                    if f.contains("O_CREAT") || s.name == "creat" {
                        e.created.insert(p.clone());
                    }
                    e.written.insert(p);
                } else {
                    e.opened_readonly.insert(p);
                }
            }
            "unlink" | "unlinkat" | "rmdir" => {
                if let Some(p) = s.paths.first() {
                    e.removed.insert(abs(dir, p));
                }
            }
            "rename" | "renameat" | "renameat2" => {
                if s.paths.len() >= 2 {
                    e.renamed.push((abs(dir, &s.paths[0]), abs(dir, &s.paths[1])));
                }
            }
            "truncate" | "ftruncate" => {
                if let Some(p) = s.paths.last() {
                    let p = abs(dir, p);
                    if !ignorable(&p) {
                        e.written.insert(p);
                    }
                }
            }
            "mkdir" | "mkdirat" | "link" | "linkat" | "symlink" | "symlinkat" | "mknod" | "mknodat" => {
                e.other.push(format!("{} {:?}", s.name, s.paths));
            }
            _ => {}
        }
    }
    e
}

fn tree(dir: &Path) -> BTreeSet<String> {
    let mut out = BTreeSet::new();
    fn walk(d: &Path, base: &Path, out: &mut BTreeSet<String>) {
        if let Ok(rd) = std::fs::read_dir(d) {
            for e in rd.flatten() {
                let p = e.path();
                out.insert(p.strip_prefix(base).unwrap().to_string_lossy().to_string());
                if p.is_dir() {
                    walk(&p, base, out);
                }
            }
        }
    }
    walk(dir, dir, &mut out);
    out
}

thread_local! {
    static STRACE_OK: std::cell::Cell<Option<bool>> = std::cell::Cell::new(None);
}
pub fn strace_works(dir: &Path) -> bool {
    STRACE_OK.with(|c| {
        if let Some(v) = c.get() {
            return v;
        }
        let probe = dir.join("strace.probe");
        let ok = std::process::Command::new("strace")
            .args(["-f", "-qq", "-o"])
            .arg(&probe)
            .arg("true")
            .stdout(std::process::Stdio::null())
            .stderr(std::process::Stdio::null())
            .status()
            .map(|s| s.success())
            .unwrap_or(false)
            && std::fs::metadata(&probe).map(|m| m.len() > 0).unwrap_or(false);
        let _ = std::fs::remove_file(&probe);
        c.set(Some(ok));
        ok
    })
}

fn run_clone(c: &CloneCase, rec: &mut CaseRec) -> Result<(), String> {
    let s = &c.scen;
    if !l2::cli_expressible(&s.cfg.chunker) {
        rec.excluded = Some("not_cli_expressible".into());
        return Ok(());
    }
    let mut e = expectations(s);
    normalise_block_dev(s, &mut e);
    let dir = worker_dir("C16");
    clean_dir(&dir);
    let work = dir.join("work");
    let tmp = dir.join("tmp");
    std::fs::create_dir_all(&work).unwrap();
    std::fs::create_dir_all(&tmp).unwrap();
    let use_strace = strace_works(&dir);
    let mut failed_run = false;
    let r = (|| -> Result<(), String> {
        let archive = crate::util::block_on(crate::l1::compress_lib(e.source.clone(), &s.cfg, ReadScript::full(), &Default::default()))?;
        let hdr = crate::refs::format::decode_header(&archive).map_err(|x| x.to_string())?;
        let mut archive = archive;
        match c.fault % 4 {
            1 => {
                if let Some(b) = archive.last_mut() {
                    *b ^= 0x01;
                }
            }
            2 => {
                let n = archive.len().saturating_sub(3);
                archive.truncate(n);
            }
            _ => {}
        }
        l2::write_file(&work.join("a.cba"), &archive);
        let out_dir = if e.prior.is_some() || s.block_dev { c.out_dir % 2 } else { c.out_dir % 3 };
        let out_rel: &str = match out_dir {
            1 => {
                std::fs::create_dir_all(work.join("sub")).map_err(|x| format!("harness: {}", x))?;
                "sub/o.out"
            }
            2 => "nodir/o.out",
            _ => "o.out",
        };
        let mut args: Vec<String> = vec!["clone".into()];
        let mut stdin = None;
        let stdin_idx = c.stdin_seed.map(|i| i as usize).filter(|i| *i < e.seeds.len());
        for (i, sd) in e.seeds.iter().enumerate() {
            args.push("--seed".into());
            if Some(i) == stdin_idx {
                stdin = Some((**sd).clone());
                args.push("-".into());
            } else {
                let n = format!("seed{}.bin", i);
                l2::write_file(&work.join(&n), sd);
                args.push(n);
            }
        }
        if let Some(p) = &e.prior {
            l2::write_file(&work.join(out_rel), p);
            args.push(if s.inplace { "--seed-output".into() } else { "--force-create".into() });
        }
        if c.verify_output && !s.block_dev {
            args.push("--verify-output".into());
        }
        if c.verify_header || c.fault % 4 == 3 {
            args.push("--verify-header".into());
            let mut pin = hdr.checksum.clone();
            if c.fault % 4 == 3 {
                pin[17] ^= 0x40;
            }
            args.push(hex::encode(&pin));
        }
        let srv = if c.http { Some(crate::http::Server::start(Arc::new(archive.clone()), crate::http::Script::default())) } else { None };
        args.push(srv.as_ref().map(|s| s.url()).unwrap_or_else(|| "a.cba".into()));
        args.push(out_rel.into());
        let before = tree(&dir);
        let so = dir.join("strace.out");
        let mut env = vec![("TMPDIR".to_string(), tmp.display().to_string())];
        if s.block_dev {
            env.push(("BITA_VERIF_FORCE_BLOCKDEV".into(), "1".into()));
        }
        let spec = l2::RunSpec { args: args.clone(), stdin, hook_build: s.block_dev, env, strace_out: if use_strace { Some(so.clone()) } else { None }, ..Default::default() };
        let run = l2::run_bita(&work, &spec);
        drop(srv);
        if run.timed_out {
            return Err(format!("[timeout] bita clone: {}", run.describe()));
        }
        if out_dir == 2 && run.ok() {
            rec.class("clone_into_a_missing_directory_succeeded_(recorded_only)");
        }
        if !run.ok() && c.fault % 4 == 0 && out_dir != 2 {
            return Err(format!("bita clone failed: {} {:?}", run.describe(), args));
        }
        failed_run = !run.ok();
        let mut after = tree(&dir);
        after.remove("strace.out");
        let added: Vec<&String> = after.difference(&before).collect();
        let removed: Vec<&String> = before.difference(&after).collect();
        if added.iter().any(|a| a.as_str() != format!("work/{}", out_rel)) || !removed.is_empty() {
            return Err(format!("directory listing: clone added {:?} / removed {:?} (only the output may appear)", added, removed));
        }
        if use_strace {
            let text = std::fs::read_to_string(&so).map_err(|x| format!("harness: strace output: {}", x))?;
            let fx = effects(&work, &parse_strace(&text));
            let out_abs = abs(&work, out_rel);
            let bad: Vec<&String> = fx.written.iter().filter(|p| **p != out_abs).collect();
            if !bad.is_empty() {
                return Err(format!("syscalls: clone opened for writing / created / truncated {:?} besides the output", bad));
            }
            if !fx.removed.is_empty() || !fx.renamed.is_empty() || !fx.other.is_empty() {
                return Err(format!("syscalls: clone removed {:?} renamed {:?} other {:?}", fx.removed, fx.renamed, fx.other));
            }
            // archive and seeds are opened read-only (they are not in `written`), and they were opened at all
            if !c.http && !fx.opened_readonly.contains(&abs(&work, "a.cba")) {
                return Err("harness: archive open not seen in the strace log".into());
            }
            rec.class("strace");
        } else {
            rec.class("listing_only_no_ptrace");
        }
        Ok(())
    })();
    clean_dir(&dir);
    r?;
    rec.level = Some("L2");
    rec.nontrivial = true;
    rec.class_if(failed_run, "clone_that_failed");
    rec.class_if(c.out_dir % 3 == 1, "output_in_an_existing_sub_directory");
    rec.class_if(c.out_dir % 3 == 2 && s.prior.is_none() && !s.block_dev, "output_below_a_directory_that_does_not_exist");
    rec.class_if(failed_run && s.prior.is_some(), "clone_that_failed_onto_an_existing_output");
    rec.class_if(s.inplace && e.source.len() > 8 * 1024 * 1024, match &s.prior { Some(Related::Edited(ed)) => match (ed.len(), ed.first()) { (1, Some(Edit::Move { len, .. })) if *len == 10 * 1024 * 1024 => "big_swap_longer_half_first", (1, _) => "big_swap_shorter_half_first", (2, Some(Edit::Move { at: 0, .. })) => "big_rotation", _ => "big_region_move" }, _ => "big_other" });
    rec.class(format!(
        "clone{}{}{}{}{}{}",
        if c.http { "_http" } else { "_local" },
        if !s.seeds.is_empty() { "_seeds" } else { "" },
        if c.stdin_seed.map(|i| (i as usize) < s.seeds.len()).unwrap_or(false) { "_stdin" } else { "" },
        if s.inplace && e.source.len() > 8 * 1024 * 1024 { "_inplace_over_8MiB" } else if s.inplace { "_inplace" } else if s.prior.is_some() { "_overwrite" } else { "_new" },
        if s.block_dev { "_blockdev" } else { "" },
        if c.verify_output || c.verify_header { "_verify" } else { "" }
    ));
    Ok(())
}

fn run_compress(c: &CompressCase, rec: &mut CaseRec) -> Result<(), String> {
    if !l2::cli_expressible(&c.cfg.chunker) {
        rec.excluded = Some("not_cli_expressible".into());
        return Ok(());
    }
    let dir = worker_dir("C16");
    clean_dir(&dir);
    let work = dir.join("work");
    let tmp = dir.join("tmp");
    std::fs::create_dir_all(&work).unwrap();
    std::fs::create_dir_all(&tmp).unwrap();
    let use_strace = strace_works(&dir);
    let source = expand(&c.source);
    let out_name = match c.out_name % 4 {
        0 => "arch.cba",
        1 => "arch",
        2 => "my.arch.v2.cba",
        _ => "sub/arch.cba",
    };
    let r = (|| -> Result<(), String> {
        if out_name.starts_with("sub/") {
            std::fs::create_dir_all(work.join("sub")).unwrap();
        }
        if !c.stdin {
            l2::write_file(&work.join("in.src"), &source);
        }
        // the existing file that --force-create replaces is either unrelated content or (a function of the case) the very
        // archive this command is about to produce: re-compressing an unchanged source over its own archive
        let same_archive = c.force_over_existing && c.stale_tmp.is_none() && blake2_64(&[&case_salt().to_le_bytes(), b"recompress"]) % 3 == 0;
        if c.force_over_existing && !same_archive {
            l2::write_file(&work.join(out_name), b"previous archive content");
        }
        // the CLI derives the temp path from the output path: Path::with_extension(output, ".tmp")
        let tmp_rel = Path::new(out_name).with_extension(".tmp");
        if let Some(n) = c.stale_tmp {
            let mut junk = Vec::new();
            SplitMix(n as u64 ^ 0x7e).fill(&mut junk, n as usize);
            l2::write_file(&work.join(&tmp_rel), &junk);
        }
        let mut args = l2::compress_args(&c.cfg, if c.stdin { None } else { Some("in.src") }, out_name, c.force_over_existing);
        let out = args.pop().unwrap();
        for (i, m) in c.metadata.iter().enumerate() {
            match m {
                MetaArg::Value(k, v) => {
                    args.extend(["--metadata-value".to_string(), k.clone(), v.clone()]);
                }
                MetaArg::File(k, b) => {
                    let f = format!("meta{}.bin", i);
                    l2::write_file(&work.join(&f), b);
                    args.extend(["--metadata-file".to_string(), k.clone(), f]);
                }
            }
        }
        args.push(out);
        if same_archive {
            let first: Vec<String> = args.iter().filter(|a| a.as_str() != "--force-create").cloned().collect();
            let pre = l2::run_bita(&work, &l2::RunSpec { args: first.clone(), stdin: if c.stdin { Some(source.clone()) } else { None }, env: vec![("TMPDIR".to_string(), tmp.display().to_string())], ..Default::default() });
            if !pre.ok() {
                return Err(format!("bita compress (first of two) failed: {} {:?}", pre.describe(), first));
            }
            rec.class("recompress_of_the_unchanged_source_over_its_own_archive");
        }
        let before = tree(&dir);
        let so = dir.join("strace.out");
        let spec = l2::RunSpec {
            args: args.clone(),
            stdin: if c.stdin { Some(source.clone()) } else { None },
            env: vec![("TMPDIR".to_string(), tmp.display().to_string())],
            strace_out: if use_strace { Some(so.clone()) } else { None },
            ..Default::default()
        };
        let run = l2::run_bita(&work, &spec);
        if !run.ok() {
            return Err(format!("bita compress failed: {} {:?}", run.describe(), args));
        }
        let mut after = tree(&dir);
        after.remove("strace.out");
        let added: Vec<&String> = after.difference(&before).collect();
        let removed: Vec<&String> = before.difference(&after).collect();
        let want_added: Vec<String> = if c.force_over_existing { vec![] } else { vec![format!("work/{}", out_name)] };
        // a stale file at the temp path is this run's temporary chunk file too: it is gone afterwards; nothing else is
        let tmp_listed = format!("work/{}", tmp_rel.display());
        let want_removed: Vec<String> = if c.stale_tmp.is_some() { vec![tmp_listed.clone()] } else { vec![] };
        if added.iter().map(|s| s.to_string()).collect::<Vec<_>>() != want_added || removed.iter().map(|s| s.to_string()).collect::<Vec<_>>() != want_removed {
            return Err(format!("directory listing: successful compress added {:?} / removed {:?}; expected exactly the archive {:?} added and {:?} removed", added, removed, want_added, want_removed));
        }
        if use_strace {
            let text = std::fs::read_to_string(&so).map_err(|x| format!("harness: strace output: {}", x))?;
            let fx = effects(&work, &parse_strace(&text));
            let out_abs = abs(&work, out_name);
            for p in &fx.written {
                if *p == out_abs {
                    continue;
                }
                // a temporary file: created by the process itself and removed again
                if fx.created.contains(p) && fx.removed.contains(p) {
                    continue;
                }
                return Err(format!("syscalls: compress wrote to {:?}, which is neither the archive nor a temporary file it created and removed", p));
            }
            for p in &fx.removed {
                if !fx.created.contains(p) && !(c.stale_tmp.is_some() && *p == abs(&work, &tmp_rel.display().to_string())) {
                    return Err(format!("syscalls: compress removed {:?} which it did not create", p));
                }
            }
            if !fx.renamed.is_empty() || !fx.other.is_empty() {
                return Err(format!("syscalls: compress renamed {:?} other {:?}", fx.renamed, fx.other));
            }
            rec.class("strace");
        } else {
            rec.class("listing_only_no_ptrace");
        }
        Ok(())
    })();
    clean_dir(&dir);
    r?;
    rec.level = Some("L2");
    rec.nontrivial = true;
    rec.class(format!("compress{}{}{}", if c.stdin { "_stdin" } else { "_file" }, if c.force_over_existing { "_force" } else { "" }, if c.metadata.iter().any(|m| matches!(m, MetaArg::File(..))) { "_metafile" } else { "" }));
    Ok(())
}

/// Large in-place updates: tens of MiB whose regions are swapped / rotated, so that long chains of chunks have to be
/// set aside while re-ordering — the regime in which an implementation might be tempted to spill to a side file.
fn big_inplace_strategy() -> impl Strategy<Value = CloneCase> {
    (any::<u32>(), 0u8..4, prop_oneof![Just(Algo::RollSum), Just(Algo::BuzHash)], any::<bool>()).prop_map(|(seed, layout, algo, http)| {
        let a = Seg::Random { n: 10 * 1024 * 1024, seed };
        let b = Seg::Random { n: 10 * 1024 * 1024 + 12_345, seed: seed ^ 0x55 };
        let c = Seg::Random { n: 3 * 1024 * 1024 + 7, seed: seed ^ 0x77 };
        // source = what the archive describes; prior = what is on disk
        let (source, prior_edits): (SourceSpec, Vec<Edit>) = match layout {
            // halves swapped, longer half first on disk: source = A B, prior = B A
            0 => (vec![a.clone(), b.clone()], vec![Edit::Move { at: 0, len: 10 * 1024 * 1024, to: 65535 }]),
            // halves swapped, shorter half first on disk: source = B A, prior = A B
            1 => (vec![b.clone(), a.clone()], vec![Edit::Move { at: 0, len: 10 * 1024 * 1024 + 12_345, to: 65535 }]),
            // three regions rotated
            2 => (vec![a.clone(), c.clone(), b.clone()], vec![Edit::Move { at: 0, len: 10 * 1024 * 1024, to: 65535 }, Edit::Move { at: 0, len: 3 * 1024 * 1024 + 7, to: 30000 }]),
            // a region moved into the middle plus an insertion
            _ => (vec![a.clone(), b.clone()], vec![Edit::Move { at: 40000, len: 6 * 1024 * 1024, to: 1000 }, Edit::Insert { at: 20000, data: Seg::Random { n: 300, seed } }]),
        };
        let chunker = if algo == Algo::RollSum {
            ChunkerCfg { algo, bits: 15, min: 16 * 1024, max: 16 * 1024 * 1024, window: 64 }
        } else {
            ChunkerCfg { algo, bits: 15, min: 16 * 1024, max: 16 * 1024 * 1024, window: 16 }
        };
        CloneCase {
            scen: Scenario { source, cfg: ArchCfg { chunker, hash_len: 64, comp: Comp::None, buffers: 4 }, seeds: vec![], prior: Some(Related::Edited(prior_edits)), inplace: true, block_dev: false, clone_buffers: 8 },
            http,
            stdin_seed: None,
            verify_output: true,
            verify_header: false,
            fault: 0,
            out_dir: 0,
        }
    })
}

fn clone_strategy() -> impl Strategy<Value = CloneCase> {
    (scenario_strategy(8, true, true), l2::cli_chunker_strategy(), any::<bool>(), prop_oneof![2 => Just(None), 1 => (0u8..4).prop_map(Some)], any::<bool>(), any::<bool>(), (prop_oneof![3 => Just(0u8), 1 => Just(1u8), 1 => Just(2u8), 1 => Just(3u8)], prop_oneof![4 => Just(0u8), 1 => Just(1u8), 1 => Just(2u8)])).prop_map(|(mut scen, chunker, http, stdin_seed, verify_output, verify_header, (fault, out_dir))| {
        scen.cfg.chunker = chunker;
        CloneCase { scen, http, stdin_seed, verify_output, verify_header, fault, out_dir }
    })
}
fn compress_strategy() -> impl Strategy<Value = CompressCase> {
    (
        source_strategy(4, 2000),
        (l2::cli_chunker_strategy(), hash_len_strategy(4), light_comp_strategy(), buffers_strategy()).prop_map(|(chunker, hash_len, comp, buffers)| ArchCfg { chunker, hash_len, comp, buffers }),
        any::<bool>(),
        any::<bool>(),
        crate::props::c11::metadata_strategy(true),
        0u8..4,
        prop_oneof![3 => Just(None), 1 => (0u32..60_000).prop_map(Some)],
    )
        .prop_map(|(source, cfg, stdin, force_over_existing, metadata, out_name, stale_tmp)| CompressCase { source, cfg, stdin, force_over_existing, metadata, out_name, stale_tmp })
}

impl Prop for C16 {
    fn id(&self) -> &'static str {
        "C16"
    }
    fn meta(&self, _tier: Tier) -> Meta {
        Meta {
            rule: "cases = the real CLI under `strace -f -y` (file-opening, creating, removing, renaming, truncating syscalls): clone in all modes (local / HTTP archive, seed files, stdin seed, new output / overwrite / --seed-output / block device via hook, output in the working directory / an existing sub-directory / below a directory that does not exist, +-verify-output, +-verify-header) and compress configurations (file / stdin input, +-force over an existing file (unrelated content, or the very archive the command is about to produce), metadata files, output names with no / several extensions or in a sub-directory). Oracle: for clone the set of paths opened for writing / created / truncated is a subset of {output}, nothing is unlinked, renamed, mkdir'ed or linked, and the archive and seeds are opened read-only; for compress writes go only to the archive and to temporary files (= paths the process itself created and removed again). Recursive directory listings (work dir and $TMPDIR) before/after: clone adds at most the output, a successful compress adds exactly the archive. Every case is non-trivial; distinct by Blake2 of the canonical case; the (command, mode) combinations reached are listed in 'classes'. If ptrace is refused at run time the check falls back to the directory-listing oracle and says so ('listing_only_no_ptrace').".into(),
            assumptions: vec!["/dev/null, /dev/tty, /proc, /sys, pipes and sockets are ignored; failed syscalls have no effect and are ignored".into()],
            ..Meta::default()
        }
    }
    fn run_worker(&self, cx: &mut WorkerCtx) {
        let t = cx.tier;
        cx.run_prop("clone", t.pick(1600, 30_000), clone_strategy(), run_clone);
        cx.run_prop("compress", t.pick(1200, 20_000), compress_strategy(), run_compress);
        cx.run_prop("big_inplace", t.pick(16, 128), big_inplace_strategy(), run_clone);
        let _ = std::fs::remove_dir_all(worker_dir("C16"));
    }
    fn replay(&self, _cx: &mut WorkerCtx, variant: &str, case: &Value) -> Result<(), String> {
        let mut rec = CaseRec::default();
        match variant {
            "compress" => run_compress(&serde_json::from_value(case.clone()).map_err(|e| e.to_string())?, &mut rec),
            _ => run_clone(&serde_json::from_value(case.clone()).map_err(|e| e.to_string())?, &mut rec),
        }
    }
}
