//! C14 — a refused operation leaves the output untouched.
use crate::engine::*;
use crate::gen::*;
use crate::l2;
use crate::props::c01::{clean_dir, worker_dir};
use crate::refs::format as fmt;
use proptest::prelude::*;
use serde::{Deserialize, Serialize};
use serde_json::Value;
use std::collections::BTreeMap;
use std::sync::Arc;

pub struct C14;

/// A real block device: a loop device over a scratch file (needs root + losetup; skipped, and recorded, otherwise).
pub struct LoopDev {
    pub dev: String,
    file: std::path::PathBuf,
}
impl LoopDev {
    pub fn attach(dir: &std::path::Path, name: &str, size: usize) -> Option<LoopDev> {
        let file = dir.join(name);
        std::fs::write(&file, vec![0u8; size]).ok()?;
        let out = std::process::Command::new("losetup").arg("-f").arg("--show").arg(&file).output().ok()?;
        if !out.status.success() {
            let _ = std::fs::remove_file(&file);
            return None;
        }
        let dev = String::from_utf8_lossy(&out.stdout).trim().to_string();
        if !dev.starts_with("/dev/") {
            return None;
        }
        Some(LoopDev { dev, file })
    }
    pub fn write(&self, data: &[u8]) -> bool {
        use std::io::{Seek, SeekFrom, Write};
        let Ok(mut f) = std::fs::OpenOptions::new().write(true).open(&self.dev) else { return false };
        f.seek(SeekFrom::Start(0)).is_ok() && f.write_all(data).is_ok() && f.sync_all().is_ok()
    }
    pub fn read(&self) -> Option<Vec<u8>> {
        std::fs::read(&self.dev).ok()
    }
    /// detach loop devices left behind by killed workers (backing files under our work directory)
    pub fn detach_stale(work_root: &str) {
        if let Ok(out) = std::process::Command::new("losetup").arg("-a").output() {
            for l in String::from_utf8_lossy(&out.stdout).lines() {
                if l.contains(work_root) {
                    if let Some(dev) = l.split(':').next() {
                        let _ = std::process::Command::new("losetup").arg("-d").arg(dev).status();
                    }
                }
            }
        }
    }
}
impl Drop for LoopDev {
    fn drop(&mut self) {
        let _ = std::process::Command::new("losetup").arg("-d").arg(&self.dev).status();
        let _ = std::fs::remove_file(&self.file);
    }
}

#[derive(Clone, Debug, Serialize, Deserialize)]
pub struct LoopCase {
    pub flags: FlagSet,
    pub arch: ArchKind,
    pub verify_header: Option<bool>,
    pub source: SourceSpec,
    pub prior_seed: u32,
    pub small: bool,
    pub cfg: ArchCfg,
    pub flip: u16,
    /// the output path is a symbolic link to the device
    pub via_symlink: bool,
}

/// Refusal cases against a REAL block device (no hook involved, production binary).
fn run_loop_case(c: &LoopCase, big: &LoopDev, small: &LoopDev, rec: &mut CaseRec) -> Result<(), String> {
    if !l2::cli_expressible(&c.cfg.chunker) {
        rec.excluded = Some("not_cli_expressible".into());
        return Ok(());
    }
    let dir = worker_dir("C14");
    let sub = dir.join("loopcase");
    let _ = std::fs::remove_dir_all(&sub);
    std::fs::create_dir_all(&sub).unwrap();
    let source = expand(&c.source);
    let devsel = if c.small && source.len() > 512 { small } else { big };
    let too_small = c.small && source.len() > 512;
    let valid = crate::util::block_on(crate::l1::compress_lib(Arc::new(source.clone()), &c.cfg, ReadScript::full(), &Default::default()))?;
    let hdr = fmt::decode_header(&valid).map_err(|e| format!("harness: {}", e))?;
    let arch_bytes = make_archive(c.arch, &valid, c.flip);
    l2::write_file(&sub.join("a.cba"), &arch_bytes);
    // pre-existing device content
    let dev_len = devsel.read().map(|d| d.len()).unwrap_or(0);
    let mut prior = Vec::new();
    SplitMix(c.prior_seed as u64).fill(&mut prior, dev_len);
    if !devsel.write(&prior) {
        return Err("harness: cannot write to the loop device".into());
    }
    let before = devsel.read().ok_or("harness: cannot read the loop device")?;
    let out_path = if c.via_symlink {
        let l = sub.join("dev.link");
        std::os::unix::fs::symlink(&devsel.dev, &l).map_err(|e| format!("harness: symlink: {}", e))?;
        l.display().to_string()
    } else {
        devsel.dev.clone()
    };
    let mut args: Vec<String> = vec!["clone".into()];
    match c.flags {
        FlagSet::Neither => {}
        FlagSet::ForceCreate => args.push("--force-create".into()),
        FlagSet::SeedOutput => args.push("--seed-output".into()),
        FlagSet::Both => args.extend(["--force-create".to_string(), "--seed-output".to_string()]),
    }
    if let Some(m) = c.verify_header {
        let mut sum = hdr.checksum.clone();
        if !m {
            let bit = c.flip as usize % 512;
            sum[bit / 8] ^= 1 << (bit % 8);
        }
        args.extend(["--verify-header".to_string(), hex::encode(sum)]);
    }
    args.extend(["a.cba".to_string(), out_path]);
    let r_exists = c.flags == FlagSet::Neither;
    let r_archive = c.arch != ArchKind::Valid;
    let r_header = c.arch == ArchKind::Valid && c.verify_header == Some(false);
    let r_small = too_small && c.arch == ArchKind::Valid && c.verify_header != Some(false) && !r_exists;
    let refusal = r_exists || r_archive || r_header || r_small;
    let run = l2::run_bita(&sub, &l2::RunSpec { args: args.clone(), ..Default::default() });
    let after = devsel.read().ok_or("harness: cannot read the loop device")?;
    let _ = std::fs::remove_dir_all(&sub);
    if run.timed_out {
        return Err(format!("[timeout] {}", run.describe()));
    }
    if refusal {
        if run.ok() {
            return Err(format!("refusal expected on a real block device (exists-without-flag={}, invalid-archive={}, header-mismatch={}, device-too-small={}) but the command exited 0: {:?}", r_exists, r_archive, r_header, r_small, args));
        }
        if after != before {
            return Err(format!("refused operation modified the block device (first difference at byte {:?}; exists-without-flag={}, invalid-archive={}, header-mismatch={}, device-too-small={}; args {:?})", crate::util::first_diff(&after, &before), r_exists, r_archive, r_header, r_small, args));
        }
        rec.nontrivial = true;
        rec.class("refused");
        rec.class_if(r_exists, "refusal_output_exists");
        rec.class_if(r_archive, "refusal_invalid_archive");
        rec.class_if(r_header, "refusal_header_mismatch");
        rec.class_if(r_small, "refusal_device_too_small");
    } else {
        rec.class("proceeds");
        if !run.ok() {
            return Err(format!("harness expectation: no refusal condition holds on the real block device but the command failed: {} {:?}", run.describe(), args));
        }
        if after.len() != before.len() || after[..source.len()] != source[..] {
            return Err("clone onto a real block device: device content does not start with the source".into());
        }
    }
    rec.class("real_loop_device");
    rec.class_if(c.via_symlink, "output_is_symlink_to_device");
    rec.level = Some("L2");
    Ok(())
}

fn loop_case_strategy() -> impl Strategy<Value = LoopCase> {
    (
        prop_oneof![4 => Just(FlagSet::Neither), 2 => Just(FlagSet::ForceCreate), 2 => Just(FlagSet::SeedOutput), 1 => Just(FlagSet::Both)],
        prop_oneof![5 => Just(ArchKind::Valid), 1 => Just(ArchKind::NotAnArchive), 1 => Just(ArchKind::HeaderBitFlip), 1 => Just(ArchKind::NoChunkerParams), 1 => Just(ArchKind::TruncatedHeader), 1 => Just(ArchKind::OverflowingChunkLocation), 1 => Just(ArchKind::RebuildIndexOutOfRange), 1 => Just(ArchKind::UnknownMagicVersion)],
        prop_oneof![3 => Just(None), 1 => Just(Some(true)), 2 => Just(Some(false))],
        prop_oneof![2 => source_strategy(3, 600), 1 => Just(vec![Seg::Random { n: 900, seed: 3 }])],
        any::<u32>(),
        prop::bool::weighted(0.3),
        (l2::cli_chunker_strategy(), hash_len_strategy(8), light_comp_strategy()).prop_map(|(chunker, hash_len, comp)| ArchCfg { chunker, hash_len, comp, buffers: 2 }),
        any::<u16>(),
        prop::bool::weighted(0.25),
    )
        .prop_map(|(flags, arch, verify_header, source, prior_seed, small, cfg, flip, via_symlink)| LoopCase { flags, arch, verify_header, source, prior_seed, small, cfg, flip, via_symlink })
}

#[derive(Clone, Copy, Debug, Serialize, Deserialize, PartialEq)]
pub enum OutKind {
    Absent,
    Regular,
    BlockDev,
    /// block device (hook) smaller than the source
    SmallBlockDev,
}
#[derive(Clone, Copy, Debug, Serialize, Deserialize, PartialEq)]
pub enum FlagSet {
    Neither,
    ForceCreate,
    SeedOutput,
    Both,
}
#[derive(Clone, Copy, Debug, Serialize, Deserialize, PartialEq)]
pub enum ArchKind {
    Valid,
    NotAnArchive,
    EmptyFile,
    HeaderBitFlip,
    TruncatedHeader,
    /// valid checksum, dictionary without chunker parameters
    NoChunkerParams,
    /// valid checksum, unknown compression enum value
    UnknownCompression,
    /// valid checksum, unknown chunking algorithm
    UnknownAlgorithm,
    /// valid checksum, dictionary bytes are not a protobuf message
    GarbageDictionary,
    /// valid checksum, a descriptor whose archive offset makes the chunk location overflow u64
    OverflowingChunkLocation,
    /// valid checksum, a rebuild index pointing beyond the descriptors
    RebuildIndexOutOfRange,
    /// a file magic of the right shape with an unknown version digit (`BITA2\0`, `\0BITA2`, ...), header checksum re-computed
    UnknownMagicVersion,
}
#[derive(Clone, Copy, Debug, Serialize, Deserialize, PartialEq)]
pub enum Cmd {
    Clone,
    CloneHttp,
    Compress,
}

#[derive(Clone, Debug, Serialize, Deserialize)]
pub struct Case {
    pub cmd: Cmd,
    pub out: OutKind,
    pub flags: FlagSet,
    pub arch: ArchKind,
    /// --verify-header: None, Some(true) = matching, Some(false) = not matching
    pub verify_header: Option<bool>,
    pub source: SourceSpec,
    pub prior_seed: u32,
    pub prior_len: u16,
    pub cfg: ArchCfg,
    pub flip: u16,
    /// `--seed` options of a clone: 0 none, 1 the output path itself, 2 another file, 3 the output path spelled `./name`,
    /// 4 the output path and another file, 5 stdin. Naming a seed is neither an overwrite nor an in-place request.
    #[serde(default)]
    pub seeds: u8,
}

fn make_archive(kind: ArchKind, valid: &[u8], flip: u16) -> Vec<u8> {
    let h = fmt::decode_header(valid).expect("harness: valid archive");
    let rebuild = |f: &dyn Fn(&mut fmt::Dictionary)| -> Vec<u8> {
        let mut d = h.dictionary.clone();
        f(&mut d);
        let db = fmt::encode_dictionary(&d, &fmt::EncodeOpts::default(), &fmt::Unknowns::default());
        let mut a = fmt::build_header_raw(false, db.len() as u64, &db, fmt::header_len_for(db.len()) as u64);
        a.extend_from_slice(&valid[h.chunk_data_offset as usize..]);
        a
    };
    match kind {
        ArchKind::Valid => valid.to_vec(),
        ArchKind::NotAnArchive => {
            let mut v = Vec::new();
            SplitMix(flip as u64).fill(&mut v, 300 + flip as usize % 500);
            v
        }
        ArchKind::EmptyFile => vec![],
        ArchKind::HeaderBitFlip => {
            let mut a = valid.to_vec();
            let bit = idx(flip, h.header_len * 8);
            a[bit / 8] ^= 1 << (bit % 8);
            a
        }
        ArchKind::TruncatedHeader => valid[..idx(flip, h.header_len)].to_vec(),
        ArchKind::NoChunkerParams => rebuild(&|d| d.chunker_params = None),
        ArchKind::UnknownCompression => rebuild(&|d| d.chunk_compression = Some(fmt::ChunkCompression { compression: 9, compression_level: 1 })),
        ArchKind::UnknownAlgorithm => rebuild(&|d| {
            if let Some(p) = &mut d.chunker_params {
                p.chunking_algorithm = 7;
            }
        }),
        ArchKind::OverflowingChunkLocation => rebuild(&|d| {
            // the LAST descriptor, so that everything before it could be cloned if validation came too late
            if let Some(c) = d.chunk_descriptors.last_mut() {
                c.archive_offset = u64::MAX - (flip as u64 % 64);
            } else {
                d.chunk_descriptors.push(fmt::Descriptor { checksum: vec![1; 64], archive_size: 1, archive_offset: u64::MAX - 3, source_size: 1 });
                d.rebuild_order.push(0);
                d.source_total_size = 1;
            }
        }),
        ArchKind::RebuildIndexOutOfRange => rebuild(&|d| {
            let n = d.chunk_descriptors.len() as u32;
            d.rebuild_order.push(n + (flip as u32 % 5));
        }),
        ArchKind::UnknownMagicVersion => {
            let mut a = valid.to_vec();
            let digit = b"023456789"[flip as usize % 9];
            if flip % 2 == 0 {
                a[..6].copy_from_slice(&[b'B', b'I', b'T', b'A', digit, 0]);
            } else {
                a[..6].copy_from_slice(&[0, b'B', b'I', b'T', b'A', digit]);
            }
            // re-seal: the checksum covers the magic
            let sum = crate::util::blake2b512(&a[..h.header_len - 64]);
            a[h.header_len - 64..h.header_len].copy_from_slice(&sum);
            a
        }
        ArchKind::GarbageDictionary => {
            let db = vec![0xffu8; 40];
            let mut a = fmt::build_header_raw(false, db.len() as u64, &db, fmt::header_len_for(db.len()) as u64);
            a.extend_from_slice(&valid[h.chunk_data_offset as usize..]);
            a
        }
    }
}

fn listing(dir: &std::path::Path) -> BTreeMap<String, (u64, u64)> {
    let mut m = BTreeMap::new();
    if let Ok(rd) = std::fs::read_dir(dir) {
        for e in rd.flatten() {
            let name = e.file_name().to_string_lossy().to_string();
            if name == "hook.log" {
                continue;
            }
            if let Ok(data) = std::fs::read(e.path()) {
                m.insert(name, (data.len() as u64, blake2_64(&[&data])));
            }
        }
    }
    m
}

fn run_case(c: &Case, rec: &mut CaseRec) -> Result<(), String> {
    if !l2::cli_expressible(&c.cfg.chunker) {
        rec.excluded = Some("not_cli_expressible".into());
        return Ok(());
    }
    let dir = worker_dir("C14");
    clean_dir(&dir);
    let source = expand(&c.source);
    let r = (|| -> Result<(), String> {
        // --- set up files
        let valid = crate::util::block_on(crate::l1::compress_lib(Arc::new(source.clone()), &c.cfg, ReadScript::full(), &Default::default()))?;
        let hdr = fmt::decode_header(&valid).map_err(|e| format!("harness: {}", e))?;
        let is_clone = c.cmd != Cmd::Compress;
        let out_name = if is_clone { "o.out" } else { "o.cba" };
        let mut prior = Vec::new();
        let out_kind = if !is_clone && matches!(c.out, OutKind::BlockDev | OutKind::SmallBlockDev) { OutKind::Regular } else { c.out };
        match out_kind {
            OutKind::Absent => {}
            OutKind::Regular => SplitMix(c.prior_seed as u64).fill(&mut prior, c.prior_len as usize),
            OutKind::BlockDev => SplitMix(c.prior_seed as u64).fill(&mut prior, source.len() + c.prior_len as usize),
            OutKind::SmallBlockDev => {
                if source.is_empty() {
                    return Err("skip".into());
                }
                // device sizes over the whole range below the source length: odd values of the generated number put the
                // device just below the source (1..=200 bytes short), even values anywhere (monotone map)
                let size = if c.prior_len % 2 == 1 { source.len() - 1 - ((c.prior_len / 2) as usize % source.len().min(200)) } else { idx(c.prior_len, source.len()) };
                SplitMix(c.prior_seed as u64).fill(&mut prior, size);
            }
        }
        if out_kind != OutKind::Absent {
            l2::write_file(&dir.join(out_name), &prior);
        }
        let mut args: Vec<String> = vec![];
        let mut env = vec![];
        let mut hook_build = false;
        let mut srv = None;
        let mut stdin: Option<Vec<u8>> = None;
        let arch_bytes;
        if is_clone {
            arch_bytes = make_archive(c.arch, &valid, c.flip);
            l2::write_file(&dir.join("a.cba"), &arch_bytes);
            args.push("clone".into());
            match c.flags {
                FlagSet::Neither => {}
                FlagSet::ForceCreate => args.push("--force-create".into()),
                FlagSet::SeedOutput => args.push("--seed-output".into()),
                FlagSet::Both => {
                    args.push("--force-create".into());
                    args.push("--seed-output".into());
                }
            }
            if let Some(m) = c.verify_header {
                let mut sum = hdr.checksum.clone();
                if !m {
                    let bit = c.flip as usize % 512;
                    sum[bit / 8] ^= 1 << (bit % 8);
                }
                args.push("--verify-header".into());
                args.push(hex::encode(sum));
            }
            if matches!(out_kind, OutKind::BlockDev | OutKind::SmallBlockDev) {
                env.push(("BITA_VERIF_FORCE_BLOCKDEV".to_string(), "1".to_string()));
                hook_build = true;
            }
            // seeds (a seed that names the output only where the output exists: a missing seed file is an error of its own)
            let seeds = if out_kind == OutKind::Absent && matches!(c.seeds, 1 | 3 | 4) { 2 } else { c.seeds };
            if matches!(seeds, 2 | 4) {
                let mut other = source.clone();
                other.extend_from_slice(b"tail of another seed");
                l2::write_file(&dir.join("other.seed"), &other);
            }
            match seeds {
                1 => args.extend(["--seed".to_string(), out_name.to_string()]),
                2 => args.extend(["--seed".to_string(), "other.seed".to_string()]),
                3 => args.extend(["--seed".to_string(), format!("./{}", out_name)]),
                4 => args.extend(["--seed".to_string(), "other.seed".to_string(), "--seed".to_string(), out_name.to_string()]),
                5 => {
                    args.extend(["--seed".to_string(), "-".to_string()]);
                    stdin = Some(source.clone());
                }
                _ => {}
            }
            rec.class_if(matches!(seeds, 1 | 3 | 4), "seed_names_the_output");
            rec.class_if(seeds != 0, "with_seed_option");
            if c.cmd == Cmd::CloneHttp {
                let s = crate::http::Server::start(Arc::new(arch_bytes.clone()), crate::http::Script::default());
                args.push(s.url());
                srv = Some(s);
            } else {
                args.push("a.cba".into());
            }
            args.push(out_name.into());
        } else {
            l2::write_file(&dir.join("in.src"), &source);
            args = l2::compress_args(&c.cfg, Some("in.src"), out_name, matches!(c.flags, FlagSet::ForceCreate | FlagSet::Both));
        }
        // --- which refusal does the specification demand?
        let exists = out_kind != OutKind::Absent;
        let r_exists = exists && match (is_clone, c.flags) {
            (_, FlagSet::Neither) => true,
            (false, FlagSet::SeedOutput) => true, // compress has no --seed-output: treated as Neither
            _ => false,
        };
        let r_archive = is_clone && c.arch != ArchKind::Valid;
        let r_header = is_clone && c.arch == ArchKind::Valid && c.verify_header == Some(false);
        let r_small = is_clone && out_kind == OutKind::SmallBlockDev && c.arch == ArchKind::Valid && c.verify_header != Some(false) && !r_exists;
        let refusal = r_exists || r_archive || r_header || r_small;
        // --- run
        let before = listing(&dir);
        let spec = l2::RunSpec { args: args.clone(), hook_build, env, stdin, ..Default::default() };
        let run = l2::run_bita(&dir, &spec);
        drop(srv);
        let after = listing(&dir);
        if run.timed_out {
            return Err(format!("[timeout] {}", run.describe()));
        }
        if refusal {
            if run.ok() {
                return Err(format!("refusal expected (exists-without-flag={}, invalid-archive={}, header-mismatch={}, device-too-small={}) but the command exited 0: {:?}", r_exists, r_archive, r_header, r_small, args));
            }
            if exists {
                match after.get(out_name) {
                    Some(v) if Some(v) == before.get(out_name) => {}
                    other => {
                        return Err(format!(
                            "refused operation modified the existing output: before {:?} after {:?} (refusal: exists-without-flag={}, invalid-archive={}, header-mismatch={}, device-too-small={}; args {:?})",
                            before.get(out_name),
                            other,
                            r_exists,
                            r_archive,
                            r_header,
                            r_small,
                            args
                        ))
                    }
                }
            } else if (r_archive || r_header) && after.contains_key(out_name) {
                return Err(format!("refusal for an invalid archive / header mismatch created the output file ({:?}): {:?}", after.get(out_name), args));
            }
            // C14 speaks about the output only; other files a refused command may create or change (C16 covers what a
            // command may touch) are recorded, not judged
            for (k, v) in &after {
                if k != out_name && before.get(k) != Some(v) {
                    rec.class("refused_operation_created_or_changed_another_file_(recorded_only)");
                }
            }
            rec.nontrivial = exists && !prior.is_empty();
            rec.class("refused");
            rec.class_if(r_exists, "refusal_output_exists");
            rec.class_if(r_archive, "refusal_invalid_archive");
            rec.class_if(r_header, "refusal_header_mismatch");
            rec.class_if(r_small, "refusal_device_too_small");
        } else {
            rec.class("proceeds");
            // sanity only (not C14's claim): a valid clone / compress into an allowed output works
            if !run.ok() {
                return Err(format!("harness expectation: no refusal condition holds but the command failed: {} {:?}", run.describe(), args));
            }
        }
        rec.class(format!("cell_{:?}_{:?}_{:?}_{:?}", c.cmd, out_kind, c.flags, if c.arch == ArchKind::Valid { "valid" } else { "invalid" }));
        rec.class(format!("{:?}", c.arch));
        Ok(())
    })();
    clean_dir(&dir);
    match r {
        Err(e) if e == "skip" => {
            rec.excluded = Some("empty_source_for_small_device".into());
            Ok(())
        }
        other => other,
    }
}

/// An output that APPEARS while the command is already running (another process claims the name): the command is held on
/// its stdin (the source of `compress`, the `--seed -` of `clone`), the output path is created by the harness with O_EXCL,
/// then stdin is completed. If the command had the path already (it creates it at start: no window) the harness's create
/// fails and the case is a plain successful run; otherwise the output exists by the time the command opens it, no overwrite
/// was requested, and the command has to refuse and leave the file alone.
#[derive(Clone, Debug, Serialize, Deserialize)]
pub struct RaceCase {
    pub clone: bool,
    pub source: SourceSpec,
    pub cfg: ArchCfg,
    pub precious_seed: u32,
    pub precious_len: u16,
}

fn run_race(c: &RaceCase, rec: &mut CaseRec) -> Result<(), String> {
    use std::io::Write;
    use std::process::{Command, Stdio};
    if !l2::cli_expressible(&c.cfg.chunker) {
        rec.excluded = Some("not_cli_expressible".into());
        return Ok(());
    }
    let dir = worker_dir("C14");
    clean_dir(&dir);
    let source = expand(&c.source);
    let out_name = if c.clone { "o.out" } else { "o.cba" };
    let mut args: Vec<String>;
    if c.clone {
        let valid = crate::util::block_on(crate::l1::compress_lib(Arc::new(source.clone()), &c.cfg, ReadScript::full(), &Default::default()))?;
        l2::write_file(&dir.join("a.cba"), &valid);
        args = vec!["clone".into(), "--seed".into(), "-".into(), "a.cba".into(), out_name.into()];
    } else {
        args = l2::compress_args(&c.cfg, None, out_name, false);
    }
    let _ = &mut args;
    let mut child = Command::new(l2::bita_bin())
        .args(&args)
        .current_dir(&dir)
        .env("RUST_BACKTRACE", "0")
        .env("TMPDIR", &dir)
        .env_remove("LD_PRELOAD")
        .stdin(Stdio::piped())
        .stdout(Stdio::null())
        .stderr(Stdio::piped())
        .spawn()
        .map_err(|e| format!("harness: spawn bita: {}", e))?;
    let mut stdin = child.stdin.take().unwrap();
    let half = source.len() / 2;
    let _ = stdin.write_all(&source[..half]);
    let _ = stdin.flush();
    // wait until the command shows that it is running: its temp file (compress) or the output itself; at most 2 s
    let tmp = dir.join(std::path::Path::new(out_name).with_extension(".tmp"));
    let t0 = std::time::Instant::now();
    while t0.elapsed().as_millis() < 2000 && !tmp.exists() && !dir.join(out_name).exists() {
        std::thread::sleep(std::time::Duration::from_millis(5));
    }
    let mut precious = Vec::new();
    SplitMix(c.precious_seed as u64).fill(&mut precious, 1 + c.precious_len as usize);
    let claimed = match std::fs::OpenOptions::new().write(true).create_new(true).open(dir.join(out_name)) {
        Ok(mut f) => {
            let _ = f.write_all(&precious);
            let _ = f.sync_all();
            true
        }
        Err(_) => false,
    };
    let _ = stdin.write_all(&source[half..]);
    drop(stdin);
    // the command is bounded by its input; a watchdog thread is not needed for a few KiB, but do not wait for ever
    let t1 = std::time::Instant::now();
    let status = loop {
        match child.try_wait() {
            Ok(Some(st)) => break Some(st),
            Ok(None) if t1.elapsed().as_secs() > 120 => {
                let _ = child.kill();
                let _ = child.wait();
                break None;
            }
            Ok(None) => std::thread::sleep(std::time::Duration::from_millis(5)),
            Err(_) => break None,
        }
    };
    let mut stderr = String::new();
    if let Some(mut e) = child.stderr.take() {
        use std::io::Read;
        let _ = e.read_to_string(&mut stderr);
    }
    let after = std::fs::read(dir.join(out_name)).ok();
    clean_dir(&dir);
    let Some(status) = status else { return Err("[timeout] the command did not finish".into()) };
    rec.level = Some("L2");
    rec.class(if c.clone { "race_clone_held_on_stdin_seed" } else { "race_compress_held_on_stdin" });
    if claimed {
        rec.class("output_appeared_while_the_command_was_running");
        rec.nontrivial = true;
        if status.success() {
            return Err(format!("refusal expected: the output appeared (created by another process) before the command opened it and no overwrite was requested, but the command exited 0: {:?}", args));
        }
        if after.as_deref() != Some(&precious[..]) {
            return Err(format!("refused operation modified an output it did not create: {} bytes before, {:?} bytes after ({:?}; stderr {})", precious.len(), after.map(|a| a.len()), args, stderr.lines().last().unwrap_or("")));
        }
    } else {
        rec.class("no_window_(the_command_had_created_its_output_already)");
        if !status.success() {
            return Err(format!("harness expectation: an undisturbed {} failed: {}", if c.clone { "clone" } else { "compress" }, stderr.lines().last().unwrap_or("")));
        }
    }
    Ok(())
}

fn race_strategy() -> impl Strategy<Value = RaceCase> {
    (any::<bool>(), source_strategy(3, 1500), (l2::cli_chunker_strategy(), hash_len_strategy(8), light_comp_strategy()).prop_map(|(chunker, hash_len, comp)| ArchCfg { chunker, hash_len, comp, buffers: 2 }), any::<u32>(), 0u16..300)
        .prop_map(|(clone, source, cfg, precious_seed, precious_len)| RaceCase { clone, source, cfg, precious_seed, precious_len })
}

fn case_strategy() -> impl Strategy<Value = Case> {
    (
        prop_oneof![3 => Just(Cmd::Clone), 1 => Just(Cmd::CloneHttp), 2 => Just(Cmd::Compress)],
        prop_oneof![2 => Just(OutKind::Absent), 4 => Just(OutKind::Regular), 2 => Just(OutKind::BlockDev), 2 => Just(OutKind::SmallBlockDev)],
        prop_oneof![3 => Just(FlagSet::Neither), 2 => Just(FlagSet::ForceCreate), 2 => Just(FlagSet::SeedOutput), 1 => Just(FlagSet::Both)],
        prop_oneof![
            5 => Just(ArchKind::Valid),
            1 => Just(ArchKind::NotAnArchive),
            1 => Just(ArchKind::EmptyFile),
            2 => Just(ArchKind::HeaderBitFlip),
            1 => Just(ArchKind::TruncatedHeader),
            1 => Just(ArchKind::NoChunkerParams),
            1 => Just(ArchKind::UnknownCompression),
            1 => Just(ArchKind::UnknownAlgorithm),
            1 => Just(ArchKind::GarbageDictionary),
            2 => Just(ArchKind::OverflowingChunkLocation),
            1 => Just(ArchKind::RebuildIndexOutOfRange),
            2 => Just(ArchKind::UnknownMagicVersion),
        ],
        prop_oneof![3 => Just(None), 1 => Just(Some(true)), 2 => Just(Some(false))],
        prop_oneof![
            3 => source_strategy(3, 600),
            1 => Just(vec![Seg::Random { n: 700, seed: 5 }]),
            // sources that END in chunks repeating earlier ones (padding): a zero run in front and a longer one at the end
            2 => (source_strategy(2, 300), 20u32..300, 40u32..700).prop_map(|(mut s, z0, z1)| {
                s.insert(0, Seg::Const { b: 0, n: z0 });
                s.push(Seg::Const { b: 0, n: z1 });
                s
            }),
        ],
        any::<u32>(),
        prop_oneof![1 => Just(0u16), 2 => 1u16..2000, 1 => any::<u16>()],
        (l2::cli_chunker_strategy(), hash_len_strategy(8), light_comp_strategy()).prop_map(|(chunker, hash_len, comp)| ArchCfg { chunker, hash_len, comp, buffers: 2 }),
        (any::<u16>(), prop_oneof![6 => Just(0u8), 2 => Just(1u8), 1 => Just(2u8), 1 => Just(3u8), 1 => Just(4u8), 1 => Just(5u8)]),
    )
        .prop_map(|(cmd, out, flags, arch, verify_header, source, prior_seed, prior_len, cfg, (flip, seeds))| Case { cmd, out, flags, arch, verify_header, source, prior_seed, prior_len, cfg, flip, seeds })
}

impl Prop for C14 {
    fn id(&self) -> &'static str {
        "C14"
    }
    fn meta(&self, _tier: Tier) -> Meta {
        Meta {
            rule: "cases = the real CLI on the matrix {clone local, clone over HTTP, compress} x output {absent, regular file, block device, block device smaller than the source — by 1..200 bytes or by any amount — (both via the cfg(oll3_bita_verif) hook)} x flags {neither, --force-create, --seed-output, both} x archive {valid, random bytes, empty file, one flipped header bit, truncated header, valid checksum but no chunker parameters / unknown compression / unknown algorithm / garbage dictionary / a magic of the right shape with an unknown version digit} x --verify-header {absent, matching, one bit off} x --seed {none, the output path itself (also spelled ./name, also next to another seed), another file, stdin}, with generated source and pre-existing content. Variant 'race': the command is held on its stdin (compress source / clone --seed -) while the harness creates the output path with O_EXCL; if that succeeds the output exists before the command opens it and the command must refuse. Whether a case is a refusal is decided by the specification table of the property (output exists without overwrite/in-place flag; header mismatch; invalid archive; device too small), not by the exit code. Oracle for refusals: exit != 0, output path content and length unchanged (or still absent for archive/header refusals); other files that a refused command creates or changes are counted in 'classes', not judged (the property speaks about the output). Non-trivial = refusal with non-empty pre-existing content; distinct by Blake2 of the canonical case; the matrix cells reached are listed in 'classes'.".into(),
            assumptions: vec!["archives that open correctly but fail later (corrupt chunk data) are not refusals and are outside C14".into(), "header-valid-but-inconsistent dictionaries that panic today (C15 known findings) are not used here".into()],
            ..Meta::default()
        }
    }
    fn run_worker(&self, cx: &mut WorkerCtx) {
        let t = cx.tier;
        cx.run_prop("matrix", t.pick(12_000, 160_000), case_strategy(), run_case);
        cx.run_prop("race", t.pick(400, 6000), race_strategy(), run_race);
        // real block devices (loop devices): one worker only, sequential
        if cx.worker == 0 && std::env::var("VERIF_ONLY").map(|o| o.split(',').any(|v| v == "loopdev")).unwrap_or(true) {
            let dir = worker_dir("C14");
            let _ = std::fs::create_dir_all(&dir);
            LoopDev::detach_stale(&format!("{}/target/work/C14", crate::engine::verif_root()));
            match (LoopDev::attach(&dir, "loop_big.img", 64 * 1024), LoopDev::attach(&dir, "loop_small.img", 512)) {
                (Some(big), Some(small)) => {
                    let n = t.pick(96u64, 1500u64);
                    // all cases on this worker: temporarily pretend to be the only worker
                    let (w, nw) = (cx.worker, cx.nworkers);
                    cx.worker = 0;
                    cx.nworkers = 1;
                    cx.run_prop("loopdev", n, loop_case_strategy(), |c, rec| run_loop_case(c, &big, &small, rec));
                    cx.worker = w;
                    cx.nworkers = nw;
                    cx.note("real loop devices were available: the 'loopdev' variant ran against /dev/loopN");
                }
                _ => cx.note("losetup could not attach a loop device: the 'loopdev' variant (real block devices) was skipped; block devices were exercised through the cfg(oll3_bita_verif) hook only"),
            }
        }
        let _ = std::fs::remove_dir_all(worker_dir("C14"));
    }
    fn replay(&self, _cx: &mut WorkerCtx, variant: &str, case: &Value) -> Result<(), String> {
        let mut rec = CaseRec::default();
        if variant == "loopdev" {
            let dir = worker_dir("C14");
            let (Some(big), Some(small)) = (LoopDev::attach(&dir, "loop_big.img", 64 * 1024), LoopDev::attach(&dir, "loop_small.img", 512)) else {
                return Err("[inconclusive] no loop device available for the replay".into());
            };
            return run_loop_case(&serde_json::from_value(case.clone()).map_err(|e| e.to_string())?, &big, &small, &mut rec);
        }
        if variant == "race" {
            return run_race(&serde_json::from_value(case.clone()).map_err(|e| e.to_string())?, &mut rec);
        }
        run_case(&serde_json::from_value(case.clone()).map_err(|e| e.to_string())?, &mut rec)
    }
}
