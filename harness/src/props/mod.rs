pub mod c01;
pub mod c02;
pub mod c03;
pub mod c04;
pub mod c05;
pub mod c06;
pub mod c07;
pub mod c08;
pub mod c09;
pub mod c10;
pub mod c11;
pub mod c12;
pub mod c13;
pub mod c14;
pub mod c15;
pub mod c16;
pub mod c17;
pub mod l2scen;

use crate::engine::Prop;

pub fn registry() -> Vec<Box<dyn Prop>> {
    vec![
        Box::new(c01::C01),
        Box::new(c02::C02),
        Box::new(c03::C03),
        Box::new(c04::C04),
        Box::new(c05::C05),
        Box::new(c06::C06),
        Box::new(c07::C07),
        Box::new(c08::C08),
        Box::new(c09::C09),
        Box::new(c10::C10),
        Box::new(c11::C11),
        Box::new(c12::C12),
        Box::new(c13::C13),
        Box::new(c14::C14),
        Box::new(c15::C15),
        Box::new(c16::C16),
        Box::new(c17::C17),
    ]
}
