pub mod c01;
pub mod c09;
pub mod c11;
pub mod c12;

use crate::engine::Prop;

pub fn registry() -> Vec<Box<dyn Prop>> {
    vec![Box::new(c01::C01), Box::new(c09::C09), Box::new(c11::C11), Box::new(c12::C12)]
}
