pub mod c01;
pub mod c09;

use crate::engine::Prop;

pub fn registry() -> Vec<Box<dyn Prop>> {
    vec![Box::new(c01::C01), Box::new(c09::C09)]
}
