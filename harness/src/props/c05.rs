//! C05 — an interrupted clone can always be completed by re-running in place.
use crate::engine::*;
use crate::gen::*;
use crate::iod::{FaultKind, WriteFault};
use crate::l2;
use crate::props::c01::{clean_dir, worker_dir};
use crate::props::l2scen::{self, L2Scen};
use crate::scen::*;
use proptest::prelude::*;
use serde::{Deserialize, Serialize};
use serde_json::Value;
use std::sync::Arc;

pub struct C05;

#[derive(Clone, Debug, Serialize, Deserialize, PartialEq)]
pub enum Mode {
    /// power cut before write k is performed
    Before,
    /// power cut after write k has been performed completely
    After,
    /// write k torn after j bytes (fraction of the write if larger)
    Torn(u16),
}

#[derive(Clone, Debug, Serialize, Deserialize, PartialEq)]
pub enum ErrFault {
    Eio,
    Enospc,
    Zero,
    /// legal short write of j bytes: the clone must still succeed
    Short(u16),
    Pending,
    /// a seek of the output fails (weaker oracle: success implies a correct output)
    SeekErr,
    /// a read of the output fails (in-place scan / reorder)
    ReadErr,
}

#[derive(Clone, Debug, Serialize, Deserialize)]
pub struct Case {
    pub scen: Scenario,
    /// interruptions: (write index as a fraction of the writes of an uninterrupted run from the current state, mode)
    pub history: Vec<(u16, Mode)>,
    /// optional error injection in one extra run before the final one: (write index fraction, fault)
    pub error: Option<(u16, ErrFault)>,
    /// re-runs keep the seed files of the first run
    pub keep_seeds: bool,
}

struct Ctx {
    s: Scenario,
    e: Expect,
    archive: Arc<Vec<u8>>,
}

fn prepare(s: &Scenario, rec: &mut CaseRec) -> Result<Option<Ctx>, String> {
    if !s.cfg.chunker.is_valid() {
        rec.excluded = Some("invalid_config".into());
        return Ok(None);
    }
    let mut e = expectations(s);
    normalise_block_dev(s, &mut e);
    if e.collision {
        rec.excluded = Some("collision_guard".into());
        return Ok(None);
    }
    let archive = crate::util::block_on(crate::l1::compress_lib(e.source.clone(), &s.cfg, ReadScript::full(), &Default::default()))?;
    Ok(Some(Ctx { s: s.clone(), e, archive: Arc::new(archive) }))
}

/// one run from `state`; `first` = the user's original command, later runs add --seed-output
fn run_once(cx: &Ctx, state: Option<Vec<u8>>, first: bool, keep_seeds: bool, faults: Vec<WriteFault>) -> crate::l1::CloneReport {
    let mut s = cx.s.clone();
    let mut e_seeds = cx.e.seeds.clone();
    if !first {
        s.inplace = true;
        if !keep_seeds {
            s.seeds.clear();
            e_seeds.clear();
        }
    }
    let (reader, _log) = crate::l1::local_reader(cx.archive.clone(), ReadScript::full());
    let opts = crate::l1::CloneOpts {
        seeds: e_seeds.into_iter().zip(s.seeds.iter().map(|(_, r)| r.clone())).collect(),
        prior: state,
        inplace: s.inplace,
        block_dev: s.block_dev,
        buffers: s.clone_buffers,
        faults,
        ..Default::default()
    };
    crate::util::block_on(crate::l1::clone_mirror(reader, &opts))
}

fn final_ok(cx: &Ctx, state: Option<Vec<u8>>, keep_seeds: bool, what: &str) -> Result<(), String> {
    let rep = run_once(cx, state, false, keep_seeds, vec![]);
    rep.result.clone().map_err(|x| format!("re-run after {} did not complete: {} (stage {})", what, x, rep.stage))?;
    let out = rep.output.unwrap();
    check_final_output(&cx.s, &cx.e, &out.data).map_err(|m| format!("re-run after {}: {}", what, m))
}

/// Execute one interruption from `state`. Returns the persistent state afterwards + stage info.
fn interrupt(cx: &Ctx, state: Option<Vec<u8>>, first: bool, keep_seeds: bool, k: usize, mode: &Mode) -> Result<(Option<Vec<u8>>, bool, bool), String> {
    let prefix = match mode {
        Mode::Before => None,
        Mode::After => Some(usize::MAX),
        Mode::Torn(j) => Some((*j as usize).max(1)),
    };
    let rep = run_once(cx, state.clone(), first, keep_seeds, vec![WriteFault::Cut { k, prefix }]);
    let out = rep.output;
    let fired = out.as_ref().map(|o| o.fault_fired).unwrap_or(false);
    if fired && rep.result.is_ok() {
        return Err(format!("a run whose write {} was cut by a power failure reported success", k));
    }
    let during_reorder = fired && rep.stage == "reorder";
    // persistent state = whatever reached the device; if the output was never opened the state is unchanged
    let new_state = match out {
        Some(o) => Some(o.data),
        None => state,
    };
    Ok((new_state, fired, during_reorder))
}

fn measure_ops(cx: &Ctx, state: Option<Vec<u8>>, first: bool, keep_seeds: bool) -> (usize, usize) {
    let rep = run_once(cx, state, first, keep_seeds, vec![]);
    rep.output.map(|o| (o.seeks, o.read_calls)).unwrap_or((0, 0))
}

fn measure_writes(cx: &Ctx, state: Option<Vec<u8>>, first: bool, keep_seeds: bool) -> Result<(usize, usize, Vec<usize>), String> {
    let rep = run_once(cx, state, first, keep_seeds, vec![]);
    rep.result.clone().map_err(|x| format!("uninterrupted run failed: {} (stage {})", x, rep.stage))?;
    let out = rep.output.unwrap();
    check_final_output(&cx.s, &cx.e, &out.data)?;
    let sizes: Vec<usize> = out.writes.iter().map(|w| w.data.len()).collect();
    Ok((out.poll_writes, rep.writes_after_reorder, sizes))
}

fn run_case(c: &Case, rec: &mut CaseRec) -> Result<(), String> {
    let Some(cx) = prepare(&c.scen, rec)? else { return Ok(()) };
    let mut state = cx.e.prior.clone();
    let mut first = true;
    let mut strictly_inside = false;
    let mut reorder_hit = false;
    let mut torn = false;
    let mut fired_count = 0;
    for (kf, mode) in &c.history {
        let (w, _wr, _) = measure_writes(&cx, state.clone(), first, c.keep_seeds)?;
        let k = idx(*kf, w + 1);
        let (ns, fired, during_reorder) = interrupt(&cx, state.clone(), first, c.keep_seeds, k, mode)?;
        state = ns;
        if fired {
            fired_count += 1;
            strictly_inside |= k > 0 && k < w;
            reorder_hit |= during_reorder;
            torn |= matches!(mode, Mode::Torn(_));
            first = false;
        } else {
            // the run completed: the state is the finished output; later runs are in-place re-runs
            first = false;
        }
    }
    if let Some((kf, f)) = &c.error {
        let (w, _, _) = measure_writes(&cx, state.clone(), first, c.keep_seeds)?;
        let k = idx(*kf, w.max(1));
        let (nseeks, nreads) = if matches!(f, ErrFault::SeekErr | ErrFault::ReadErr) { measure_ops(&cx, state.clone(), first, c.keep_seeds) } else { (0, 0) };
        let fault = match f {
            ErrFault::SeekErr => WriteFault::SeekFail { k: idx(*kf, nseeks.max(1)) },
            ErrFault::ReadErr => WriteFault::ReadFail { k: idx(*kf, nreads.max(1)) },
            ErrFault::Eio => WriteFault::Fail { k, kind: FaultKind::Eio },
            ErrFault::Enospc => WriteFault::Fail { k, kind: FaultKind::Enospc },
            ErrFault::Zero => WriteFault::Zero { k },
            ErrFault::Short(j) => WriteFault::Short { k, j: *j as usize },
            ErrFault::Pending => WriteFault::Pending { k },
        };
        let rep = run_once(&cx, state.clone(), first, c.keep_seeds, vec![fault]);
        let out = rep.output;
        let fired = out.as_ref().map(|o| o.fault_fired).unwrap_or(false);
        match f {
            ErrFault::Short(_) | ErrFault::Pending => {
                rep.result.clone().map_err(|x| format!("a legal short / pending write made the clone fail: {}", x))?;
                check_final_output(&cx.s, &cx.e, &out.as_ref().unwrap().data)?;
                rec.class("legal_short_or_pending_write");
            }
            ErrFault::SeekErr | ErrFault::ReadErr => {
                if fired && rep.result.is_ok() {
                    check_final_output(&cx.s, &cx.e, &out.as_ref().unwrap().data).map_err(|m| format!("a run in which a {:?} of the output failed reported success with a wrong output: {}", f, m))?;
                }
                rec.class_if(fired, if *f == ErrFault::SeekErr { "seek_error_injected" } else { "read_error_injected" });
            }
            _ => {
                if fired && rep.result.is_ok() {
                    return Err(format!("a run whose write {} failed ({:?}) reported success", k, f));
                }
                rec.class_if(fired, "write_error_injected");
                rec.class_if(fired && k + 1 == w, "error_on_last_write");
            }
        }
        if let Some(o) = out {
            state = Some(o.data);
        }
        first = false;
    }
    final_ok(&cx, state, c.keep_seeds, &format!("history {:?} error {:?}", c.history, c.error))?;
    classify_scenario(rec, &cx.s, &cx.e);
    rec.level = Some("L1");
    rec.nontrivial = strictly_inside || c.error.is_some();
    rec.class_if(reorder_hit, "interrupted_during_reorder");
    rec.class_if(fired_count > 0 && !reorder_hit, "interrupted_during_seed_or_fetch");
    rec.class_if(torn, "torn_write");
    rec.class_if(fired_count >= 2, "repeated_interruptions");
    Ok(())
}

#[derive(Clone, Debug, Serialize, Deserialize)]
struct ExhCase {
    scen: Scenario,
    k: usize,
    mode: Mode,
}

/// every crash point and tear offset of one scenario (single interruption)
fn exhaustive_scenario(cxw: &mut WorkerCtx, scen: &Scenario, count: &mut u64, index: &mut u64) {
    let mut rec0 = CaseRec::default();
    let Ok(Some(cx)) = prepare(scen, &mut rec0) else { return };
    let Ok((w, wr, sizes)) = measure_writes(&cx, cx.e.prior.clone(), true, true) else { return };
    if w == 0 || w > 40 {
        return;
    }
    for k in 0..=w {
        let mut modes = vec![Mode::Before, Mode::After];
        if k < sizes.len() {
            let n = sizes[k];
            if n <= 16 {
                modes.extend((1..n).map(|j| Mode::Torn(j as u16)));
            } else {
                modes.extend([1usize, n / 2, n - 1].iter().map(|j| Mode::Torn(*j as u16)));
            }
        }
        for mode in modes {
            *index += 1;
            if !cxw.mine(*index) {
                continue;
            }
            *count += 1;
            let case = ExhCase { scen: scen.clone(), k, mode: mode.clone() };
            let key = key_of(&case);
            cxw.eval_case("exh", &case, key, |rec| {
                let (state, fired, during_reorder) = interrupt(&cx, cx.e.prior.clone(), true, true, k, &mode)?;
                final_ok(&cx, state, true, &format!("crash at write {} of {} ({:?})", k, w, mode))?;
                rec.nontrivial = fired && k > 0 && k < w;
                rec.level = Some("L1");
                rec.class_if(during_reorder, "interrupted_during_reorder");
                rec.class_if(fired && k >= wr, "interrupted_during_seed_or_fetch");
                rec.class_if(matches!(mode, Mode::Torn(_)), "torn_write");
                Ok(())
            });
        }
    }
}

// ------------------------------------------------------------------------------- L2

#[derive(Clone, Debug, Serialize, Deserialize)]
pub struct L2Case {
    pub base: L2Scen,
    /// (write index fraction, torn prefix fraction or None = before, Some(65535) = after)
    pub kill: Option<(u16, Option<u16>)>,
    /// (op: 0 write 1 ftruncate, index fraction, errno: 0 EIO 1 ENOSPC)
    pub fail: Option<(u8, u16, u8)>,
}

fn run_l2(c: &L2Case, rec: &mut CaseRec) -> Result<(), String> {
    let mut base = c.base.clone();
    base.http = false;
    base.verify_output = false;
    let s = &base.scen;
    if !l2::cli_expressible(&s.cfg.chunker) {
        rec.excluded = Some("not_cli_expressible".into());
        return Ok(());
    }
    let mut e = expectations(s);
    normalise_block_dev(s, &mut e);
    if e.collision {
        rec.excluded = Some("collision_guard".into());
        return Ok(());
    }
    let dir = worker_dir("C05");
    // 1. uninterrupted run: count the writes to the output
    let o = l2scen::execute("C05", &base, &e, None, None)?;
    if !o.run.ok() {
        clean_dir(&dir);
        return Err(format!("uninterrupted bita clone failed: {}", o.run.describe()));
    }
    let writes: Vec<&l2::HookEvent> = o.events.iter().filter(|ev| ev.path.ends_with("o.out") && ev.op == "write").collect();
    let w = writes.len();
    let mut state: Option<Vec<u8>> = e.prior.clone();
    let mut nontrivial = false;
    // 2. kill
    if let Some((kf, pf)) = &c.kill {
        if w > 0 {
            let k = idx(*kf, w + 1);
            let prefix: i64 = match pf {
                None => -1,
                Some(65535) => i64::MAX / 2,
                Some(j) => {
                    let n = writes.get(k).map(|ev| ev.len as usize).unwrap_or(1);
                    (1 + idx(*j, n.max(1))) as i64
                }
            };
            let hook = l2::Hook { kill: vec![("write".into(), "o.out".into(), k as u32, prefix)], ..Default::default() };
            let o2 = l2scen::execute("C05", &base, &e, Some(hook), None)?;
            if k < w {
                if o2.run.code != Some(137) {
                    clean_dir(&dir);
                    return Err(format!("harness: kill at write {} of {} did not fire: {}", k, w, o2.run.describe()));
                }
                nontrivial |= k > 0;
                rec.class("process_killed_mid_clone");
                rec.class_if(matches!(pf, Some(j) if *j != 65535), "torn_write");
            }
            state = o2.output.or(state);
        }
    }
    // 3. failing write / ftruncate in a further run: must not report success
    if let Some((op, kf, en)) = &c.fail {
        let mut b2 = base.clone();
        if state.is_some() && c.kill.is_some() {
            b2.scen.inplace = true;
        }
        let o_clean = l2scen::execute("C05", &b2, &e, None, state.as_deref())?;
        let wn = o_clean.events.iter().filter(|ev| ev.path.ends_with("o.out") && ev.op == "write").count();
        let count = |name: &str| o_clean.events.iter().filter(|ev| ev.path.ends_with("o.out") && ev.op == name).count();
        let (opname, n) = match *op % 4 {
            0 => ("write", wn),
            1 => ("ftruncate", if s.block_dev { 0 } else { 1 }),
            2 => ("lseek", count("lseek")),
            _ => ("read", count("read")),
        };
        if n > 0 && (opname == "lseek" || opname == "read") {
            // a failing seek / read of the output (in-place scan, reorder reads, positioning): the property only speaks of
            // writes, so the oracle here is the weaker, always valid one: exit 0 implies a correct output
            let k = idx(*kf, n);
            let hook = l2::Hook { fail: vec![(opname.into(), "o.out".into(), k as u32, libc::EIO)], ..Default::default() };
            let o3 = l2scen::execute("C05", &b2, &e, Some(hook), state.as_deref())?;
            if o3.run.ok() {
                let out = o3.output.as_ref().ok_or("exit 0 but no output")?;
                if let Err(m) = check_final_output(&b2.scen, &e, out) {
                    clean_dir(&dir);
                    return Err(format!("bita clone exited 0 with a wrong output although {} #{} of {} on the output failed with EIO: {}", opname, k, n, m));
                }
            }
            nontrivial = true;
            rec.class(if opname == "lseek" { "seek_error_injected" } else { "read_error_injected" });
            state = o3.output.or(state);
        } else if n > 0 {
            let k = idx(*kf, n);
            let errno = if *en % 2 == 0 { libc::EIO } else { libc::ENOSPC };
            let hook = l2::Hook { fail: vec![(opname.into(), "o.out".into(), k as u32, errno)], ..Default::default() };
            let o3 = l2scen::execute("C05", &b2, &e, Some(hook), state.as_deref())?;
            if o3.run.ok() {
                clean_dir(&dir);
                return Err(format!("bita clone exited 0 although {} #{} of {} on the output failed with errno {}: {}", opname, k, n, errno, o3.run.describe()));
            }
            nontrivial = true;
            rec.class("write_error_injected");
            rec.class_if(opname == "write" && k + 1 == n, "error_on_last_write");
            rec.class_if(opname == "ftruncate", "resize_error_injected");
            state = o3.output.or(state);
        }
    }
    // 4. final in-place re-run
    let mut b4 = base.clone();
    if state.is_some() {
        b4.scen.inplace = true;
    }
    let o4 = l2scen::execute("C05", &b4, &e, None, state.as_deref())?;
    let r = (|| -> Result<(), String> {
        if !o4.run.ok() {
            return Err(format!("re-run with --seed-output did not complete: {}", o4.run.describe()));
        }
        let out = o4.output.as_ref().ok_or("re-run exit 0 but no output")?;
        check_final_output(s, &e, out).map_err(|m| format!("re-run with --seed-output: {}", m))
    })();
    clean_dir(&dir);
    r?;
    classify_scenario(rec, s, &e);
    rec.level = Some("L2");
    rec.nontrivial = nontrivial;
    Ok(())
}

fn mode_strategy() -> impl Strategy<Value = Mode> {
    prop_oneof![2 => Just(Mode::Before), 2 => Just(Mode::After), 3 => prop_oneof![1u16..=16, 1u16..=400].prop_map(Mode::Torn)]
}
fn case_strategy() -> impl Strategy<Value = Case> {
    (
        scenario_strategy(8, true, true),
        prop::collection::vec((any::<u16>(), mode_strategy()), 0..4),
        prop_oneof![
            2 => Just(None),
            2 => (any::<u16>(), prop_oneof![Just(ErrFault::Eio), Just(ErrFault::Enospc), Just(ErrFault::Zero), (1u16..40).prop_map(ErrFault::Short), Just(ErrFault::Pending), Just(ErrFault::SeekErr), Just(ErrFault::ReadErr)]).prop_map(Some),
            1 => Just(Some((65535u16, ErrFault::Enospc))),
        ],
        any::<bool>(),
    )
        .prop_map(|(scen, history, error, keep_seeds)| Case { scen, history, error, keep_seeds })
}
fn l2_strategy() -> impl Strategy<Value = L2Case> {
    (
        l2scen::l2scen_strategy(scenario_strategy(8, true, true).boxed()),
        prop_oneof![1 => Just(None), 3 => (any::<u16>(), prop_oneof![Just(None), Just(Some(65535u16)), (0u16..65535).prop_map(Some)]).prop_map(Some)],
        prop_oneof![1 => Just(None), 3 => (0u8..8, prop_oneof![any::<u16>(), Just(65535u16)], 0u8..2).prop_map(|(op, k, en)| Some((match op { 0..=3 => 0, 4 => 1, 5 | 6 => 2, _ => 3 }, k, en)))],
    )
        .prop_map(|(base, kill, fail)| L2Case { base, kill, fail })
}

impl Prop for C05 {
    fn id(&self) -> &'static str {
        "C05"
    }
    fn meta(&self, _tier: Tier) -> Meta {
        Meta {
            level: "fault_enumeration",
            rule: "L1 'exh': for a pool of generated scenarios whose uninterrupted run issues <= 40 output writes, EVERY crash point k in 0..=W x {before write k, after write k, torn after every byte j (chunks <= 16 bytes; 1, n/2, n-1 otherwise)} is executed on the instrumented in-memory output (the power cut applies a byte prefix and kills the device), then an un-faulted --seed-output run must complete with output == source. L1 'hist': proptest histories of up to 3 interruptions (write index measured from the current state each time) + optional error injection (EIO, ENOSPC, Ok(0), legal short write, Pending) + the final re-run, with or without the original seeds. L2: the real CLI under iohook: kill at write k with a torn prefix (exit 137), failing write / ftruncate with EIO / ENOSPC (must exit non-zero — goes through tokio::fs::File where deferred write errors live), then `bita clone --seed-output` again. Non-trivial = interruption strictly inside the run (0<k<W) or an injected error; distinct by Blake2 of the canonical case.".into(),
            assumptions: vec!["crash model: writes are atomic up to a byte prefix of the write in flight; earlier writes are durable (no block-level reordering, no fsync model)".into()],
            ..Meta::default()
        }
    }
    fn run_worker(&self, cx: &mut WorkerCtx) {
        let t = cx.tier;
        if std::env::var("VERIF_ONLY").map(|o| o.split(',').any(|v| v == "exh")).unwrap_or(true) {
            let pool = cx.sample_n("exh", &scenario_strategy(8, true, true), t.pick(160, 4000));
            let mut count = 0u64;
            let mut index = 0u64;
            for scen in &pool {
                exhaustive_scenario(cx, scen, &mut count, &mut index);
                if cx.stats.failures.len() >= 3 {
                    break;
                }
            }
            cx.set_exhaustive("every_crash_point_and_tear_offset_of_pooled_scenarios_with_le_40_writes", count);
        }
        cx.run_prop("hist", t.pick(8_000, 200_000), case_strategy(), run_case);
        cx.run_prop("l2", t.pick(960, 12000), l2_strategy(), run_l2);
        let _ = std::fs::remove_dir_all(worker_dir("C05"));
    }
    fn replay(&self, _cx: &mut WorkerCtx, variant: &str, case: &Value) -> Result<(), String> {
        let mut rec = CaseRec::default();
        match variant {
            "exh" => {
                let c: ExhCase = serde_json::from_value(case.clone()).map_err(|e| e.to_string())?;
                let Some(cx) = prepare(&c.scen, &mut rec)? else { return Ok(()) };
                let (state, _, _) = interrupt(&cx, cx.e.prior.clone(), true, true, c.k, &c.mode)?;
                final_ok(&cx, state, true, "replayed crash")
            }
            "l2" => run_l2(&serde_json::from_value(case.clone()).map_err(|e| e.to_string())?, &mut rec),
            _ => run_case(&serde_json::from_value(case.clone()).map_err(|e| e.to_string())?, &mut rec),
        }
    }
}
