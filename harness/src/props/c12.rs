//! C12 — compress is deterministic: same input and options, same archive bytes.
use crate::engine::*;
use crate::gen::*;
use crate::l1::{self, RtShape};
use crate::l2;
use crate::props::c01::{clean_dir, delay_strategy, worker_dir};
use crate::refs::chunker::{ref_chunks, CutKind};
use crate::refs::format as fmt;
use crate::scen::*;
use proptest::prelude::*;
use serde::{Deserialize, Serialize};
use serde_json::Value;
use std::collections::BTreeMap;
use std::sync::Arc;

pub struct C12;

#[derive(Clone, Debug, Serialize, Deserialize)]
pub struct Sched {
    pub buffers: usize,
    pub rt: RtShape,
    pub reads: ReadScript,
    pub stdin: bool,
    pub delays: Vec<(String, String, u32, Option<u32>)>,
    /// CLI: a stale temporary chunk file of this many bytes (left by an earlier failed run) sits at the temp path
    #[serde(default)]
    pub stale_tmp: Option<u32>,
    /// library writer: this run is made by a freshly started process (the worker process has compressed many other cases,
    /// with other codecs and levels, before this one: "every run" includes a run without that history)
    #[serde(default)]
    pub fresh_process: bool,
}

#[derive(Clone, Debug, Serialize, Deserialize)]
pub struct Case {
    pub source: SourceSpec,
    pub chunker: ChunkerCfg,
    pub hash_len: usize,
    pub comp: Comp,
    pub cli: bool,
    pub runs: Vec<Sched>,
    /// metadata entries given to every run (part of "the same options")
    #[serde(default)]
    pub metadata: Vec<MetaArg>,
}

fn sched_strategy() -> impl Strategy<Value = Sched> {
    (buffers_strategy(), l1::rt_shape_strategy(), read_script_strategy(), any::<bool>(), delay_strategy(), (prop_oneof![3 => Just(None), 1 => (1u32..60_000).prop_map(Some)], prop::bool::weighted(0.15))).prop_map(|(buffers, rt, reads, stdin, delays, (stale_tmp, fresh_process))| Sched { buffers, rt, reads, stdin, delays, stale_tmp, fresh_process })
}

fn describe_archive_diff(a: &[u8], b: &[u8]) -> String {
    let ha = fmt::decode_header(a);
    let hb = fmt::decode_header(b);
    let extra = match (ha, hb) {
        (Ok(x), Ok(y)) => format!(
            "descriptors {} vs {}, rebuild {} vs {}, same descriptor order: {}",
            x.dictionary.chunk_descriptors.len(),
            y.dictionary.chunk_descriptors.len(),
            x.dictionary.rebuild_order.len(),
            y.dictionary.rebuild_order.len(),
            x.dictionary.chunk_descriptors.iter().map(|d| &d.checksum).eq(y.dictionary.chunk_descriptors.iter().map(|d| &d.checksum))
        ),
        (x, y) => format!("decodable: {} vs {}", x.is_ok(), y.is_ok()),
    };
    format!("{}; {}", crate::util::describe_diff("archives differ", a, b), extra)
}

fn run_case(c: &Case, rec: &mut CaseRec) -> Result<(), String> {
    if !c.chunker.is_valid() || (c.cli && !l2::cli_expressible(&c.chunker)) {
        rec.excluded = Some("invalid_or_not_cli_expressible".into());
        return Ok(());
    }
    let source = Arc::new(expand(&c.source));
    let md: BTreeMap<String, Vec<u8>> = metadata_map(&c.metadata);
    let mut archives: Vec<Vec<u8>> = vec![];
    let dir = if c.cli { Some(worker_dir("C12")) } else { None };
    for (i, s) in c.runs.iter().enumerate() {
        let cfg = ArchCfg { chunker: c.chunker, hash_len: c.hash_len, comp: c.comp, buffers: if c.comp.heavy() { s.buffers.min(2) } else { s.buffers } };
        let a = if c.cli {
            let dir = dir.as_ref().unwrap();
            let hook = if s.delays.is_empty() { None } else { Some(l2::Hook { delay: s.delays.clone(), ..Default::default() }) };
            let stale: Option<Vec<u8>> = s.stale_tmp.map(|n| {
                let mut v = Vec::new();
                SplitMix(n as u64).fill(&mut v, n as usize);
                v
            });
            let r = compress_cli_over(dir, &format!("r{}", i), &source, &cfg, s.stdin, &c.metadata, hook.as_ref(), None, stale.as_deref());
            match r {
                Ok((a, _)) => a,
                Err(e) => {
                    clean_dir(dir);
                    return Err(e);
                }
            }
        } else if s.fresh_process {
            l1::compress_lib_fresh_process(&worker_dir("C12"), &c.source, &cfg, &s.reads, &md)?
        } else {
            let rt = s.rt.build();
            rt.block_on(l1::compress_lib(source.clone(), &cfg, s.reads.clone(), &md))?
        };
        archives.push(a);
    }
    if let Some(d) = &dir {
        clean_dir(d);
    }
    for i in 1..archives.len() {
        if archives[i] != archives[0] {
            return Err(format!("run {} ({:?}) vs run 0 ({:?}): {}", i, c.runs[i], c.runs[0], describe_archive_diff(&archives[i], &archives[0])));
        }
    }
    // classification
    let model = ref_chunks(&c.chunker, &source, source.len() <= 1024);
    let nchunks = model.len();
    let differ = c.runs.iter().any(|r| r.buffers != c.runs[0].buffers || r.rt != c.runs[0].rt || r.stdin != c.runs[0].stdin || r.delays != c.runs[0].delays || r.reads != c.runs[0].reads || r.stale_tmp != c.runs[0].stale_tmp);
    let some_parallel = c.runs.iter().any(|r| r.buffers >= 2);
    rec.nontrivial = nchunks >= 2 && differ && some_parallel;
    rec.level = Some(if c.cli { "L2" } else { "L1" });
    rec.class(if c.cli { "cli_writer" } else { "lib_writer" });
    rec.class_if(c.runs.iter().any(|r| r.stdin) && c.runs.iter().any(|r| !r.stdin) && c.cli, "file_and_pipe");
    rec.class_if(c.runs.iter().any(|r| !r.delays.is_empty()), "delay_script");
    rec.class_if(c.cli && c.runs.iter().any(|r| r.stale_tmp.is_some()), "stale_temp_file_in_some_run");
    rec.class_if(md.len() >= 2, "two_or_more_metadata_entries");
    rec.class_if(!c.cli && c.runs.iter().any(|r| r.fresh_process) && c.runs.iter().any(|r| !r.fresh_process), "lib_writer_in_a_fresh_process_vs_in_the_long_lived_worker");
    // skew: a chunk at least 64x larger than the median, followed by at least 4 chunks
    if nchunks >= 6 {
        let mut lens: Vec<usize> = model.iter().map(|m| m.len).collect();
        lens.sort();
        let med = lens[lens.len() / 2].max(1);
        let skew = model.iter().enumerate().any(|(i, m)| m.len >= 64 * med && m.len >= 65536 && i + 4 < nchunks);
        rec.class_if(skew, "skew_slow_chunk_before_fast_ones");
    }
    rec.class_if(model.iter().any(|m| m.kind == CutKind::Max), "max_cut");
    Ok(())
}

fn case_strategy() -> impl Strategy<Value = Case> {
    (
        prop_oneof![4 => source_strategy(6, 2000), 1 => zero_heavy_strategy(6, 400)],
        any::<bool>(),
        small_chunker_strategy(),
        l2::cli_chunker_strategy(),
        hash_len_strategy(4),
        comp_strategy(),
        prop::collection::vec(sched_strategy(), 3..5),
        prop_oneof![
            2 => Just(vec![]),
            1 => crate::props::c11::metadata_strategy(true),
            2 => prop::collection::vec(("[a-z]{1,6}", "[a-zA-Z0-9_.]{0,12}").prop_map(|(k, v)| MetaArg::Value(k, v)), 2..9),
        ],
    )
        .prop_map(|(source, cli, small, clic, hash_len, comp, runs, metadata)| {
            let comp = if cli {
                match comp {
                    Comp::Brotli(l) => Comp::Brotli(l.min(6)),
                    Comp::Zstd(l) => Comp::Zstd(l.min(6)),
                    Comp::Lzma(l) => Comp::Lzma(l.min(2)),
                    c => c,
                }
            } else {
                comp
            };
            Case { source, chunker: if cli { clic } else { small }, hash_len, comp, cli, runs, metadata }
        })
}

/// Skew: one slow chunk (a long constant run cut at max) ahead of many fast ones; compared across
/// buffered-chunks 1 / 8 / 64 and different runtimes. This is the shape under which unordered
/// completion of the hash / compress stages would reorder results.
fn skew_strategy() -> impl Strategy<Value = Case> {
    (
        prop_oneof![Just(Algo::RollSum), Just(Algo::BuzHash)],
        any::<bool>(),
        prop_oneof![Just(65536usize), Just(200_000), Just(400_000)],
        prop_oneof![Just(Comp::Brotli(6)), Just(Comp::Brotli(9)), Just(Comp::Zstd(6)), Just(Comp::Brotli(4))],
        any::<u32>(),
        0u32..400,
        0u8..4,
    )
        .prop_map(|(algo, cli, max, comp, seed, lead, b)| {
            let bits = 3;
            let chunker = ChunkerCfg { algo, bits, min: 4, max, window: 16 };
            // a constant whose window hash misses the filter, found with the reference chunker
            let mut cb = b * 61 + 1;
            for _ in 0..256 {
                let probe = vec![cb; 64];
                let r = ref_chunks(&chunker, &probe, true);
                if r.len() == 1 {
                    break;
                }
                cb = cb.wrapping_add(1);
            }
            let source = vec![
                Seg::Random { n: lead, seed },
                Seg::Const { b: cb, n: max as u32 + 100 },
                Seg::Random { n: 3000, seed: seed ^ 1 },
                Seg::Text { n: 2000, seed },
            ];
            let mk = |buffers: usize, multi: bool, workers: usize, blocking: usize, stdin: bool| Sched {
                buffers,
                rt: RtShape { multi, workers, blocking },
                reads: ReadScript::full(),
                stdin,
                delays: vec![],
                stale_tmp: None,
                fresh_process: false,
            };
            let runs = vec![mk(1, false, 1, 1, false), mk(8, true, 4, 8, true), mk(64, true, 2, 8, false), mk(3, true, 3, 3, false)];
            Case { source, chunker, hash_len: 64, comp, cli, runs, metadata: vec![] }
        })
}

/// Chunks of 2-4 MB (above every internal buffer size: 1 MiB refill, 1 MiB brotli buffer, tokio's 2 MiB file buffer),
/// compressible and not, compared across buffered-chunks 1 / 2 / 8 / 64: how many chunks are in flight (or how many idle
/// workers there are) must not change a single stored byte.
fn bigchunk_strategy() -> impl Strategy<Value = Case> {
    (
        2_100_000usize..=3_600_000,
        any::<bool>(),
        prop_oneof![3 => (1u32..=5).prop_map(Comp::Brotli), 2 => (1u32..=3).prop_map(Comp::Zstd), 1 => Just(Comp::Lzma(1)), 1 => Just(Comp::None)],
        any::<u32>(),
        0u8..3,
    )
        .prop_map(|(size, cli, comp, seed, shape)| {
            let chunker = ChunkerCfg { algo: Algo::FixedSize, bits: 0, min: 0, max: size, window: 0 };
            let n = size as u32;
            let source = match shape {
                0 => vec![Seg::Text { n: n + n / 2, seed }],
                1 => vec![Seg::Const { b: 0, n }, Seg::Random { n: n / 3, seed }, Seg::Text { n, seed }],
                _ => vec![Seg::Small { n, seed, alpha: 3 }, Seg::Const { b: 0x55, n: n / 2 }],
            };
            let mk = |buffers: usize, multi: bool, workers: usize, blocking: usize, stdin: bool| Sched {
                buffers,
                rt: RtShape { multi, workers, blocking },
                reads: ReadScript::full(),
                stdin,
                delays: vec![],
                stale_tmp: None,
                fresh_process: false,
            };
            let runs = vec![mk(1, false, 1, 1, false), mk(2, true, 2, 4, false), mk(8, true, 4, 8, true), mk(64, true, 3, 16, false)];
            Case { source, chunker, hash_len: 64, comp, cli, runs, metadata: vec![] }
        })
}

impl Prop for C12 {
    fn id(&self) -> &'static str {
        "C12"
    }
    fn meta(&self, _tier: Tier) -> Meta {
        Meta {
            rule: "cases = (source spec, options incl. 0-8 metadata entries, writer in {library, CLI}, 3-4 runs differing in buffered-chunks {1,2,3,8,64}, runtime shape, read fragmentation, file vs pipe delivery (stdin, -i /dev/stdin, a named pipe) and injected syscall delay scripts; 15 % of the library writer's runs are made by a freshly started helper process, the others by the long-lived worker process that has compressed hundreds of other cases with other codecs and levels before). Oracle (metamorphic): all archives of one case are byte-identical. Variant 'bigchunk': chunks of 2.1-3.6 MB (above every internal buffer size), compressible and not, compared across buffered-chunks 1 / 2 / 8 / 64 and runtime shapes. Variant 'skew' builds a slow chunk (64 KiB-400 KiB constant run cut at max) ahead of hundreds of few-byte chunks. Non-trivial = >=2 chunks, runs differ in at least one schedule parameter and at least one run has buffered-chunks >= 2; distinct by Blake2 of the canonical case.".into(),
            assumptions: vec!["schedules are perturbed, not enumerated; library and CLI archives are not compared with each other (version string may legitimately differ)".into()],
            ..Meta::default()
        }
    }
    fn run_worker(&self, cx: &mut WorkerCtx) {
        let t = cx.tier;
        cx.run_prop("det", t.pick(2400, 60_000), case_strategy(), run_case);
        cx.run_prop("skew", t.pick(96, 3000), skew_strategy(), run_case);
        cx.run_prop("bigchunk", t.pick(32, 600), bigchunk_strategy(), run_case);
        let dir = worker_dir("C12");
        let _ = std::fs::remove_dir_all(dir);
    }
    fn replay(&self, _cx: &mut WorkerCtx, _variant: &str, case: &Value) -> Result<(), String> {
        let c: Case = serde_json::from_value(case.clone()).map_err(|e| e.to_string())?;
        let mut rec = CaseRec::default();
        for _ in 0..if c.cli { 5 } else { 2 } {
            run_case(&c, &mut rec)?;
        }
        Ok(())
    }
}
