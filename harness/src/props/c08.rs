//! C08 — archive readers deliver exactly the requested bytes despite fragmentation / faults.
use crate::engine::*;
use crate::gen::*;
use crate::http::{self, Action, Body, Script, When};
use crate::iod::FragReader;
use crate::props::c07::expected_runs;
use bitar::archive_reader::{ArchiveReader, HttpReader, IoReader};
use bitar::ChunkOffset;
use futures_util::StreamExt;
use proptest::prelude::*;
use serde::{Deserialize, Serialize};
use serde_json::Value;
use std::sync::Arc;

pub struct C08;

#[derive(Clone, Debug, Serialize, Deserialize)]
pub struct RangeSpec {
    pub start: u16,
    pub len: u16,
    /// 0 = placed by `start`; 1 = adjacent to the previous range; 2 = overlapping the previous one
    pub rel: u8,
}

#[derive(Clone, Debug, Serialize, Deserialize)]
pub struct LocalCase {
    pub data_len: u16,
    pub seed: u32,
    pub ranges: Vec<RangeSpec>,
    pub reads: ReadScript,
    /// pretend the file ends here (fraction of the data), if set
    pub eof_at: Option<u16>,
    pub read_at: Option<(u16, u16)>,
}

/// one operation on a local reader that lives for the whole case
#[derive(Clone, Debug, Serialize, Deserialize)]
pub enum SessOp {
    ReadAt(u16, u16),
    /// read all the ranges
    Chunks(Vec<RangeSpec>),
    /// take only the first k items of the stream, then drop it (a consumer that stops early)
    ChunksPartial(Vec<RangeSpec>, u8),
}

/// A local reader used more than once: it may have been partly consumed before it was wrapped (`start_pos`), and every
/// operation starts wherever the previous one left the underlying reader.
#[derive(Clone, Debug, Serialize, Deserialize)]
pub struct SessionCase {
    pub data_len: u16,
    pub seed: u32,
    pub start_pos: u16,
    pub reads: ReadScript,
    pub ops: Vec<SessOp>,
}

/// One HttpReader used for several operations in a row against one scripted server; the fault steps apply to the
/// requests of the whole session in order.
#[derive(Clone, Debug, Serialize, Deserialize)]
pub struct HSessionCase {
    pub data_len: u16,
    pub seed: u32,
    pub ops: Vec<SessOp>,
    pub steps: Vec<Step>,
    pub budget: u32,
    pub pieces: Vec<u8>,
    pub chunked: bool,
}

/// one failure step for the k-th request of the whole session
#[derive(Clone, Debug, Serialize, Deserialize, PartialEq)]
pub enum Step {
    Ok,
    Drop,
    /// cut after this many body bytes (fraction of the body if > body)
    Cut(u16),
    /// clean early end after this many bytes
    Short(u16),
}

#[derive(Clone, Debug, Serialize, Deserialize)]
pub struct HttpCase {
    pub data_len: u16,
    pub seed: u32,
    pub ranges: Vec<RangeSpec>,
    pub steps: Vec<Step>,
    pub budget: u32,
    pub pieces: Vec<u8>,
    pub chunked: bool,
    pub read_at: Option<(u16, u16)>,
}

fn blob(n: usize, seed: u32) -> Vec<u8> {
    let mut v = Vec::new();
    SplitMix(seed as u64 ^ 0xB10B).fill(&mut v, n);
    v
}

fn place_ranges(specs: &[RangeSpec], data_len: usize) -> Vec<(u64, usize)> {
    let mut out: Vec<(u64, usize)> = vec![];
    if data_len == 0 {
        return out;
    }
    for r in specs {
        let len = (r.len as usize).clamp(1, data_len);
        let start = match (r.rel, out.last()) {
            (1, Some(p)) => p.0 as usize + p.1,
            (2, Some(p)) => p.0 as usize + p.1 / 2,
            _ => idx(r.start, data_len),
        };
        if start >= data_len {
            continue;
        }
        let len = len.min(data_len - start);
        out.push((start as u64, len));
    }
    out
}

async fn drain<E: std::fmt::Display>(
    mut stream: std::pin::Pin<Box<dyn futures_util::Stream<Item = Result<bytes::Bytes, E>> + Send + '_>>,
    data: &[u8],
    ranges: &[(u64, usize)],
) -> Result<(usize, Option<String>), String> {
    let mut n = 0usize;
    let mut err: Option<String> = None;
    // Like Archive::chunk_stream's StreamUntilFirstError (the public way to consume a reader), stop polling at the
    // first error: the ArchiveReader streams themselves make no promise about being polled after an error.
    while let Some(item) = stream.next().await {
        match item {
            Ok(b) => {
                let Some(&(o, l)) = ranges.get(n) else {
                    return Err(format!("stream: item #{} but only {} ranges were requested", n, ranges.len()));
                };
                let want = &data[o as usize..o as usize + l];
                if b[..] != *want {
                    return Err(format!(
                        "item #{} (range {}+{}) is not exactly the requested bytes: got {} bytes{}",
                        n,
                        o,
                        l,
                        b.len(),
                        if b.len() == l { " (content differs: shifted or stale data)" } else { " (short or long item)" }
                    ));
                }
                n += 1;
            }
            Err(e) => {
                err = Some(e.to_string());
                break;
            }
        }
    }
    Ok((n, err))
}

/// Ranges above 1 MiB (and above tokio's 2 MiB file buffer) through the local reader: read_at and read_chunks must still
/// return exactly the requested bytes - no more, no fewer - whether or not the range ends at the end of the file.
#[derive(Clone, Debug, Serialize, Deserialize)]
pub struct BigLocalCase {
    pub total: u32,
    pub seed: u32,
    pub off: u32,
    pub len: u32,
    pub reads: ReadScript,
    /// the range ends exactly at the end of the file
    pub to_eof: bool,
}

fn run_biglocal(c: &BigLocalCase, rec: &mut CaseRec) -> Result<(), String> {
    let mut data = Vec::new();
    SplitMix(c.seed as u64 ^ 0xB16).fill(&mut data, c.total as usize);
    let data = Arc::new(data);
    let len = (c.len as usize).min(data.len());
    let off = if c.to_eof { data.len() - len } else { (c.off as usize) % (data.len() - len + 1) };
    let mut reader = IoReader::new(FragReader::new(data.clone(), c.reads.clone()));
    let b = crate::util::block_on_simple(reader.read_at(off as u64, len)).map_err(|e| format!("local read_at({},{}) failed although the bytes are available: {}", off, len, e))?;
    if b.len() != len || b[..] != data[off..off + len] {
        return Err(format!("local read_at({},{}) of a {}-byte file returned {} bytes{}", off, len, data.len(), b.len(), if b.len() == len { " (wrong bytes)" } else { "" }));
    }
    // the same range as a chunk, followed by a small adjacent one and one in front
    let mut ranges: Vec<(u64, usize)> = vec![(off as u64, len)];
    if off + len + 10 <= data.len() {
        ranges.push(((off + len) as u64, 10));
    }
    if off >= 7 {
        ranges.push((off as u64 - 7, 7));
    }
    let chunks: Vec<ChunkOffset> = ranges.iter().map(|(o, l)| ChunkOffset::new(*o, *l)).collect();
    let mut reader = IoReader::new(FragReader::new(data.clone(), c.reads.clone()));
    let (n, err) = crate::util::block_on_simple(async { drain(reader.read_chunks(chunks), &data, &ranges).await })?;
    if n != ranges.len() || err.is_some() {
        return Err(format!("local: {} of {} ranges delivered, error {:?}, although all ranges are readable", n, ranges.len(), err));
    }
    rec.level = Some("L1");
    rec.nontrivial = true;
    rec.class("local_range_over_1MiB");
    rec.class_if(len > 2 << 20, "local_range_over_2MiB");
    rec.class_if(off + len == data.len(), "range_ends_at_end_of_file");
    Ok(())
}

fn biglocal_strategy() -> impl Strategy<Value = BigLocalCase> {
    (2_300_000u32..4_200_000, any::<u32>(), any::<u32>(), prop_oneof![Just(1_048_577u32), 1_048_577u32..2_300_000, Just(2_097_153u32)], prop_oneof![2 => Just(ReadScript::full()), 1 => Just(ReadScript { sizes: vec![65536], pending_every: 0 }), 1 => Just(ReadScript { sizes: vec![1 << 20, 4096, 0], pending_every: 3 })], prop::bool::weighted(0.2))
        .prop_map(|(total, seed, off, len, reads, to_eof)| BigLocalCase { total, seed, off, len, reads, to_eof })
}

fn run_local(c: &LocalCase, rec: &mut CaseRec) -> Result<(), String> {
    let data = Arc::new(blob(c.data_len as usize, c.seed));
    let ranges = place_ranges(&c.ranges, data.len());
    let eof = c.eof_at.map(|f| idx(f, data.len() + 1));
    let chunks: Vec<ChunkOffset> = ranges.iter().map(|(o, l)| ChunkOffset::new(*o, *l)).collect();
    let mut fr = FragReader::new(data.clone(), c.reads.clone());
    fr.eof_at = eof;
    let mut reader = IoReader::new(fr);
    let (n, err) = crate::util::block_on_simple(async { drain(reader.read_chunks(chunks), &data, &ranges).await })?;
    // which ranges are fully available before the (pretended) end of file
    let limit = eof.unwrap_or(data.len());
    let first_bad = ranges.iter().position(|(o, l)| *o as usize + l > limit);
    match first_bad {
        None => {
            if n != ranges.len() || err.is_some() {
                return Err(format!("local: {} of {} ranges delivered, error {:?}, although all ranges are readable", n, ranges.len(), err));
            }
        }
        Some(k) => {
            if err.is_none() {
                return Err(format!("local: range #{} reaches beyond the end of the file but no error was returned ({} items)", k, n));
            }
            if n != k {
                return Err(format!("local: error expected at range #{} but {} items were delivered before it", k, n));
            }
        }
    }
    // read_at
    if let Some((o, l)) = c.read_at {
        if !data.is_empty() {
            let o = idx(o, data.len());
            let l = (l as usize).clamp(1, data.len());
            let mut fr = FragReader::new(data.clone(), c.reads.clone());
            fr.eof_at = eof;
            let mut reader = IoReader::new(fr);
            let r = crate::util::block_on_simple(reader.read_at(o as u64, l));
            match r {
                Ok(b) => {
                    if o + l > limit {
                        return Err(format!("local read_at({},{}) succeeded although the file ends at {}", o, l, limit));
                    }
                    if b[..] != data[o..o + l] {
                        return Err(format!("local read_at({},{}) returned {} bytes / wrong bytes", o, l, b.len()));
                    }
                }
                Err(_) => {
                    if o + l <= limit {
                        return Err(format!("local read_at({},{}) failed although the bytes are available", o, l));
                    }
                }
            }
        }
    }
    rec.level = Some("L1");
    rec.class("local");
    rec.class_if(eof.is_some() && first_bad.is_some(), "early_eof");
    rec.class_if(c.reads.pending_every > 0, "pending_injected");
    let short = c.reads.sizes.iter().any(|s| *s != 0) && ranges.iter().any(|(_, l)| c.reads.sizes.iter().any(|s| *s != 0 && (*s as usize) < *l));
    rec.class_if(short, "short_read_inside_chunk");
    rec.class_if(ranges.windows(2).any(|w| w[1].0 < w[0].0), "unordered_ranges");
    rec.class_if(ranges.windows(2).any(|w| w[1].0 < w[0].0 + w[0].1 as u64 && w[1].0 >= w[0].0), "overlapping_ranges");
    rec.nontrivial = (short || (eof.is_some() && first_bad.is_some())) && ranges.len() >= 2;
    Ok(())
}

fn run_session(c: &SessionCase, rec: &mut CaseRec) -> Result<(), String> {
    let data = Arc::new(blob(c.data_len as usize, c.seed));
    let mut fr = FragReader::new(data.clone(), c.reads.clone());
    let start_pos = idx(c.start_pos, data.len() + 1);
    fr.set_pos(start_pos);
    let mut reader = IoReader::new(fr);
    let mut first_range_at_zero_on_used_reader = false;
    let mut used = start_pos != 0;
    for (k, op) in c.ops.iter().enumerate() {
        match op {
            SessOp::ReadAt(o, l) => {
                let o = idx(*o, data.len());
                let l = (*l as usize).clamp(1, data.len() - o);
                let b = crate::util::block_on_simple(reader.read_at(o as u64, l)).map_err(|e| format!("session op #{}: read_at({},{}) failed although the bytes are available: {}", k, o, l, e))?;
                if b[..] != data[o..o + l] {
                    return Err(format!("session op #{}: read_at({},{}) returned {} bytes / wrong bytes", k, o, l, b.len()));
                }
            }
            SessOp::Chunks(specs) | SessOp::ChunksPartial(specs, _) => {
                let mut ranges = place_ranges(specs, data.len());
                if ranges.is_empty() {
                    continue;
                }
                first_range_at_zero_on_used_reader |= used && ranges[0].0 == 0;
                let chunks: Vec<ChunkOffset> = ranges.iter().map(|(o, l)| ChunkOffset::new(*o, *l)).collect();
                let take = match op {
                    SessOp::ChunksPartial(_, n) => (*n as usize) % ranges.len(),
                    _ => ranges.len(),
                };
                ranges.truncate(take);
                let (n, err) = crate::util::block_on_simple(async {
                    use futures_util::StreamExt;
                    let stream = reader.read_chunks(chunks).take(take);
                    drain(Box::pin(stream), &data, &ranges).await
                })
                .map_err(|e| format!("session op #{}: {}", k, e))?;
                if n != take || err.is_some() {
                    return Err(format!("session op #{}: {} of {} ranges delivered, error {:?}, although all ranges are readable", k, n, take, err));
                }
            }
        }
        used = true;
    }
    rec.level = Some("L1");
    rec.class("local_session");
    rec.class_if(start_pos != 0, "reader_partly_consumed_before_wrapping");
    rec.class_if(first_range_at_zero_on_used_reader, "first_range_at_offset_0_on_a_used_reader");
    rec.class_if(c.ops.iter().any(|o| matches!(o, SessOp::ChunksPartial(..))), "stream_dropped_early");
    rec.nontrivial = c.ops.len() >= 2 || start_pos != 0;
    Ok(())
}

/// The model of one HTTP session: expected request log and outcome.
struct Model {
    requests: Vec<(u64, u64)>,
    fails: bool,
    resumes: usize,
    exhausted: bool,
    clean_short: bool,
}

fn model(ranges: &[(u64, usize)], steps: &[Step], budget: u32) -> Model {
    let runs = expected_runs(ranges);
    let mut m = Model { requests: vec![], fails: false, resumes: 0, exhausted: false, clean_short: false };
    let mut k = 0usize; // request counter
    'runs: for (o, e) in runs {
        let mut pos = o;
        let mut left = budget;
        loop {
            m.requests.push((pos, e));
            let remaining = (e - pos + 1) as usize;
            let step = steps.get(k).cloned().unwrap_or(Step::Ok);
            k += 1;
            let failure = match step {
                Step::Ok => false,
                Step::Drop => true,
                Step::Cut(c) => {
                    let c = (c as usize).min(remaining);
                    if c >= remaining {
                        false
                    } else {
                        pos += c as u64;
                        true
                    }
                }
                Step::Short(c) => {
                    let c = c as usize;
                    if c >= remaining {
                        false
                    } else {
                        m.fails = true;
                        m.clean_short = true;
                        break 'runs;
                    }
                }
            };
            if !failure {
                continue 'runs;
            }
            if left == 0 {
                m.fails = true;
                m.exhausted = true;
                break 'runs;
            }
            left -= 1;
            if pos > o {
                m.resumes += 1;
            }
        }
    }
    m
}

/// `cut_drops_terminator`: under chunked transfer encoding a `Cut` step that falls at or behind the end of the body closes
/// the connection without the terminating zero-length chunk ("cut exactly at the end": every byte has arrived, so for
/// read_chunks it is no failure; read_at reads a response to its end and could not tell, so it is not used there).
fn script_for(steps: &[Step], pieces: &[u8], chunked: bool, cut_drops_terminator: bool) -> Script {
    let mut rules = vec![];
    for (i, s) in steps.iter().enumerate() {
        let base = Action { pieces: pieces.iter().map(|p| *p as usize).collect(), chunked, ..Default::default() };
        let a = match s {
            Step::Ok => base,
            Step::Drop => Action { drop: true, ..base },
            Step::Cut(c) => Action { cut_after: Some(*c as usize), omit_last_chunk: chunked && cut_drops_terminator, ..base },
            Step::Short(c) => Action { body: Body::Short(*c as usize), ..base },
        };
        rules.push((When::Nth(i), a));
    }
    rules.push((When::Always, Action { pieces: pieces.iter().map(|p| *p as usize).collect(), chunked, ..Default::default() }));
    Script { rules, data_from: 0, max_requests: 0 }
}

/// read_at model: each attempt requests the full range; failure = drop or cut before the end; a clean early end is an
/// error at once. Returns (number of requests, whether the call must succeed).
fn model_read_at(l: usize, steps: &[Step], budget: u32) -> (usize, bool) {
    let mut attempts = 0usize;
    let mut left = budget;
    let ok = loop {
        let step = steps.get(attempts).cloned().unwrap_or(Step::Ok);
        attempts += 1;
        let fail = match step {
            Step::Ok => false,
            Step::Drop => true,
            Step::Cut(k) => (k as usize) < l,
            Step::Short(k) => {
                if (k as usize) < l {
                    break false;
                }
                false
            }
        };
        if !fail {
            break true;
        }
        if left == 0 {
            break false;
        }
        left -= 1;
    };
    (attempts, ok)
}

fn run_hsession(c: &HSessionCase, rec: &mut CaseRec) -> Result<(), String> {
    let data = Arc::new(blob(c.data_len as usize, c.seed));
    let has_partial = c.ops.iter().any(|o| matches!(o, SessOp::ChunksPartial(..)));
    // a consumer that drops a stream early leaves the number of requests already sent open: such sessions are fault-free
    // and only the delivered data is judged
    let steps: Vec<Step> = if has_partial { vec![] } else { c.steps.clone() };
    let srv = http::Server::start(data.clone(), script_for(&steps, &c.pieces, c.chunked, false));
    let url: reqwest::Url = srv.url().parse().unwrap();
    let mut expected: Vec<(u64, u64)> = vec![];
    let mut failed_ops = 0usize;
    let mut done_ops = 0usize;
    let r: Result<(), String> = crate::util::block_on(async {
        use futures_util::StreamExt;
        let mut reader = HttpReader::from_url(url.clone()).retries(c.budget).retry_delay(std::time::Duration::from_secs(0));
        for (i, op) in c.ops.iter().enumerate() {
            let k = expected.len().min(steps.len());
            match op {
                SessOp::ReadAt(o, l) => {
                    let o = idx(*o, data.len());
                    let l = (*l as usize).clamp(1, data.len() - o);
                    let (attempts, want_ok) = model_read_at(l, &steps[k..], c.budget);
                    for _ in 0..attempts {
                        expected.push((o as u64, (o + l - 1) as u64));
                    }
                    match reader.read_at(o as u64, l).await {
                        Ok(b) => {
                            if !want_ok {
                                return Err(format!("session op #{}: read_at succeeded although the transfer failed beyond the retry budget / ended early", i));
                            }
                            if b[..] != data[o..o + l] {
                                return Err(format!("session op #{}: read_at({},{}) returned {} bytes / wrong bytes", i, o, l, b.len()));
                            }
                        }
                        Err(e) => {
                            if want_ok {
                                return Err(format!("session op #{}: read_at({},{}) failed ({}) although failures were within the retry budget", i, o, l, e));
                            }
                            failed_ops += 1;
                        }
                    }
                }
                SessOp::Chunks(specs) | SessOp::ChunksPartial(specs, _) => {
                    let mut ranges = place_ranges(specs, data.len());
                    if ranges.is_empty() {
                        continue;
                    }
                    let chunks: Vec<ChunkOffset> = ranges.iter().map(|(o, l)| ChunkOffset::new(*o, *l)).collect();
                    let take = match op {
                        SessOp::ChunksPartial(_, n) => (*n as usize) % ranges.len(),
                        _ => ranges.len(),
                    };
                    let m = model(&ranges, &steps[k..], c.budget);
                    expected.extend(m.requests.iter().cloned());
                    ranges.truncate(take);
                    let (n, err) = drain(Box::pin(reader.read_chunks(chunks).take(take)), &data, &ranges).await.map_err(|e| format!("session op #{}: {}", i, e))?;
                    if m.fails {
                        if err.is_none() {
                            return Err(format!("session op #{}: retries exhausted / body ended early but the stream reported no error ({} items)", i, n));
                        }
                        failed_ops += 1;
                    } else if err.is_some() || n != take {
                        return Err(format!("session op #{}: {} of {} items, error {:?}, although every failure was within the retry budget", i, n, take, err));
                    }
                }
            }
            done_ops += 1;
        }
        Ok(())
    });
    r?;
    if !has_partial {
        let log: Vec<(u64, u64)> = srv.requests().iter().map(|r| r.range.unwrap_or((u64::MAX, 0))).collect();
        if log != expected {
            let i = log.iter().zip(expected.iter()).position(|(a, b)| a != b).unwrap_or(log.len().min(expected.len()));
            return Err(format!("session requests: request #{} is {:?} but the resume model expects {:?} ({} sent, {} expected; steps {:?}, budget {})", i, log.get(i), expected.get(i), log.len(), expected.len(), steps, c.budget));
        }
    }
    drop(srv);
    rec.level = Some("L1");
    rec.class("http_session");
    rec.class_if(failed_ops > 0 && done_ops > failed_ops, "operation_after_a_failed_one");
    rec.class_if(has_partial, "stream_dropped_early");
    rec.class_if(!c.pieces.is_empty(), "body_in_pieces");
    rec.nontrivial = done_ops >= 2;
    Ok(())
}

fn run_http(c: &HttpCase, rec: &mut CaseRec) -> Result<(), String> {
    let data = Arc::new(blob(c.data_len as usize, c.seed));
    let ranges = place_ranges(&c.ranges, data.len());
    if ranges.is_empty() {
        rec.excluded = Some("no_ranges".into());
        return Ok(());
    }
    let m = model(&ranges, &c.steps, c.budget);
    let srv = http::Server::start(data.clone(), script_for(&c.steps, &c.pieces, c.chunked, true));
    let url: reqwest::Url = srv.url().parse().unwrap();
    let chunks: Vec<ChunkOffset> = ranges.iter().map(|(o, l)| ChunkOffset::new(*o, *l)).collect();
    let (n, err) = crate::util::block_on(async {
        let mut reader = HttpReader::from_url(url.clone()).retries(c.budget).retry_delay(std::time::Duration::from_secs(0));
        let s = reader.read_chunks(chunks);
        drain(s, &data, &ranges).await
    })?;
    let log: Vec<(u64, u64)> = srv.requests().iter().map(|r| r.range.unwrap_or((u64::MAX, 0))).collect();
    if log != m.requests {
        let i = log.iter().zip(m.requests.iter()).position(|(a, b)| a != b).unwrap_or(log.len().min(m.requests.len()));
        return Err(format!(
            "requests: request #{} is {:?} but the resume model expects {:?} ({} sent, {} expected; steps {:?}, budget {})",
            i,
            log.get(i),
            m.requests.get(i),
            log.len(),
            m.requests.len(),
            c.steps,
            c.budget
        ));
    }
    if m.fails {
        if err.is_none() {
            return Err(format!("outcome: retries exhausted / body ended early but the stream reported no error ({} items)", n));
        }
    } else if err.is_some() || n != ranges.len() {
        return Err(format!("outcome: {} of {} items, error {:?}, although every failure was within the retry budget", n, ranges.len(), err));
    }
    drop(srv);
    // read_at: whole range re-requested on failure, exactly `size` bytes or an error
    if let Some((o, l)) = c.read_at {
        let o = idx(o, data.len());
        let l = (l as usize).clamp(1, data.len() - o);
        let srv = http::Server::start(data.clone(), script_for(&c.steps, &c.pieces, c.chunked, false));
        let url: reqwest::Url = srv.url().parse().unwrap();
        let r = crate::util::block_on(async {
            let mut reader = HttpReader::from_url(url).retries(c.budget).retry_delay(std::time::Duration::from_secs(0));
            reader.read_at(o as u64, l).await
        });
        // model: each attempt requests the full range; failure = drop or cut before the end; clean short => error
        let mut attempts = 0usize;
        let mut left = c.budget;
        let want_ok = loop {
            let step = c.steps.get(attempts).cloned().unwrap_or(Step::Ok);
            attempts += 1;
            let fail = match step {
                Step::Ok => false,
                Step::Drop => true,
                Step::Cut(k) => (k as usize) < l,
                Step::Short(k) => {
                    if (k as usize) < l {
                        break false;
                    }
                    false
                }
            };
            if !fail {
                break true;
            }
            if left == 0 {
                break false;
            }
            left -= 1;
        };
        let log: Vec<(u64, u64)> = srv.requests().iter().map(|r| r.range.unwrap_or((u64::MAX, 0))).collect();
        if log.len() != attempts || log.iter().any(|r| *r != (o as u64, (o + l - 1) as u64)) {
            return Err(format!("read_at requests: {:?}, expected {} requests of bytes={}-{}", log, attempts, o, o + l - 1));
        }
        match r {
            Ok(b) => {
                if !want_ok {
                    return Err("read_at: succeeded although the transfer failed beyond the retry budget / ended early".into());
                }
                if b[..] != data[o..o + l] {
                    return Err(format!("read_at({},{}) returned {} bytes / wrong bytes", o, l, b.len()));
                }
            }
            Err(e) => {
                if want_ok {
                    return Err(format!("read_at({},{}) failed ({}) although failures were within the retry budget", o, l, e));
                }
            }
        }
    }
    rec.level = Some("L1");
    rec.class("http");
    rec.class_if(m.resumes > 0, "mid_body_cut_resumed");
    rec.class_if(m.exhausted, "retry_budget_exhausted");
    rec.class_if(m.clean_short, "clean_early_end");
    rec.class_if(c.steps.iter().any(|s| *s == Step::Drop), "connection_dropped");
    rec.class_if(c.chunked, "chunked_encoding");
    rec.class_if(!c.pieces.is_empty(), "body_in_pieces");
    rec.nontrivial = m.resumes > 0 || m.exhausted || m.clean_short;
    Ok(())
}

/// The CLI's retry wiring: `bita clone --http-retry-count B URL` against the scripted server. All chunk data of these
/// archives is one run, so the resume model applies to the data requests as a whole.
#[derive(Clone, Debug, Serialize, Deserialize)]
pub struct CliCase {
    pub seed: u32,
    pub chunk: u16,
    pub chunks: u8,
    pub steps: Vec<Step>,
    pub budget: u32,
    pub pieces: Vec<u8>,
}

fn run_cli(c: &CliCase, rec: &mut CaseRec) -> Result<(), String> {
    use crate::gen::*;
    let n = c.chunk.max(1) as u32 * c.chunks.max(1) as u32;
    let source = Arc::new(expand(&vec![Seg::Random { n, seed: c.seed }]));
    let cfg = ArchCfg { chunker: ChunkerCfg { algo: Algo::FixedSize, bits: 0, min: 0, max: c.chunk.max(1) as usize, window: 0 }, hash_len: 64, comp: Comp::None, buffers: 2 };
    let archive = crate::util::block_on(crate::l1::compress_lib(source.clone(), &cfg, ReadScript::full(), &Default::default()))?;
    let h = crate::refs::format::decode_header(&archive).map_err(|e| format!("harness: {}", e))?;
    let data_len = archive.len() - h.header_len;
    if data_len == 0 {
        rec.excluded = Some("no_chunk_data".into());
        return Ok(());
    }
    // one run: [chunk data offset, end)
    let ranges = vec![(h.chunk_data_offset, data_len)];
    let m = model(&ranges, &c.steps, c.budget);
    let mut rules = vec![];
    for (i, st) in c.steps.iter().enumerate() {
        let base = Action { pieces: c.pieces.iter().map(|p| *p as usize).collect(), ..Default::default() };
        let a = match st {
            Step::Ok => base,
            Step::Drop => Action { drop: true, ..base },
            Step::Cut(k) => Action { cut_after: Some(*k as usize), ..base },
            Step::Short(k) => Action { body: Body::Short(*k as usize), ..base },
        };
        rules.push((When::NthData(i), a));
    }
    let srv = http::Server::start(Arc::new(archive.clone()), Script { rules, data_from: h.header_len as u64, max_requests: 200 });
    let dir = crate::props::c01::worker_dir("C08");
    crate::props::c01::clean_dir(&dir);
    let args = vec!["--http-retry-count".to_string(), c.budget.to_string(), "--http-retry-delay".to_string(), "0".to_string()];
    let (run, out) = crate::scen::clone_cli(&dir, &srv.url(), "o.out", &args, None, None, false, &[]);
    let log: Vec<(u64, u64)> = srv.requests().iter().filter_map(|r| r.range).filter(|r| r.0 >= h.header_len as u64).collect();
    let overrun = srv.overrun.load(std::sync::atomic::Ordering::SeqCst);
    drop(srv);
    crate::props::c01::clean_dir(&dir);
    if run.timed_out || overrun {
        return Err(format!("bita clone keeps re-requesting (more than 200 requests) or hangs: {}", run.describe()));
    }
    if log != m.requests {
        let i = log.iter().zip(m.requests.iter()).position(|(a, b)| a != b).unwrap_or(log.len().min(m.requests.len()));
        return Err(format!("requests (CLI, --http-retry-count {}): data request #{} is {:?} but the resume model expects {:?} ({} sent, {} expected; steps {:?})", c.budget, i, log.get(i), m.requests.get(i), log.len(), m.requests.len(), c.steps));
    }
    if m.fails {
        if run.ok() {
            return Err(format!("outcome (CLI): retries exhausted / body ended early but bita clone exited 0 (steps {:?}, budget {})", c.steps, c.budget));
        }
    } else {
        if !run.ok() {
            return Err(format!("outcome (CLI): every failure was within --http-retry-count {} but bita clone failed: {}", c.budget, run.describe()));
        }
        if out.as_deref() != Some(&source[..]) {
            return Err("outcome (CLI): exit 0 but the output differs from the source".into());
        }
    }
    rec.level = Some("L2");
    rec.class("cli_http_retry");
    rec.class_if(m.resumes > 0, "mid_body_cut_resumed");
    rec.class_if(m.exhausted, "retry_budget_exhausted");
    rec.class_if(m.clean_short, "clean_early_end");
    rec.nontrivial = m.resumes > 0 || m.exhausted || m.clean_short;
    Ok(())
}

fn cli_strategy() -> impl Strategy<Value = CliCase> {
    (any::<u32>(), prop_oneof![1u16..=16, 16u16..=400], 1u8..=6, prop::collection::vec(step_strategy(), 0..6), 0u32..=3, prop_oneof![2 => Just(vec![]), 1 => prop::collection::vec(1u8..60, 1..3)])
        .prop_map(|(seed, chunk, chunks, steps, budget, pieces)| CliCase { seed, chunk, chunks, steps, budget, pieces })
}

fn ranges_strategy(max: usize) -> impl Strategy<Value = Vec<RangeSpec>> {
    prop::collection::vec(
        (prop_oneof![1 => Just(0u16), 6 => any::<u16>()], prop_oneof![3 => 1u16..=16, 2 => 1u16..=200, 1 => 1u16..=3000], prop_oneof![3 => Just(0u8), 4 => Just(1u8), 1 => Just(2u8)]).prop_map(|(start, len, rel)| RangeSpec { start, len, rel }),
        1..=max,
    )
}
fn hsession_strategy() -> impl Strategy<Value = HSessionCase> {
    let op = prop_oneof![
        2 => (prop_oneof![1 => Just(0u16), 3 => any::<u16>()], 1u16..300).prop_map(|(o, l)| SessOp::ReadAt(o, l)),
        4 => ranges_strategy(5).prop_map(SessOp::Chunks),
        1 => (ranges_strategy(5), any::<u8>()).prop_map(|(r, n)| SessOp::ChunksPartial(r, n)),
    ];
    (
        1u16..=3000,
        any::<u32>(),
        prop::collection::vec(op, 2..5),
        prop_oneof![2 => Just(vec![]), 3 => prop::collection::vec(step_strategy(), 1..8)],
        0u32..=3,
        prop_oneof![2 => Just(vec![]), 1 => prop::collection::vec(1u8..60, 1..3)],
        any::<bool>(),
    )
        .prop_map(|(data_len, seed, ops, steps, budget, pieces, chunked)| HSessionCase { data_len, seed, ops, steps, budget, pieces, chunked })
}
fn session_strategy() -> impl Strategy<Value = SessionCase> {
    let op = prop_oneof![
        2 => (prop_oneof![1 => Just(0u16), 3 => any::<u16>()], 1u16..500).prop_map(|(o, l)| SessOp::ReadAt(o, l)),
        4 => ranges_strategy(6).prop_map(SessOp::Chunks),
        1 => (ranges_strategy(6), any::<u8>()).prop_map(|(r, n)| SessOp::ChunksPartial(r, n)),
    ];
    (1u16..=6000, any::<u32>(), prop_oneof![2 => Just(0u16), 1 => Just(u16::MAX), 3 => any::<u16>()], read_script_strategy(), prop::collection::vec(op, 1..6))
        .prop_map(|(data_len, seed, start_pos, reads, ops)| SessionCase { data_len, seed, start_pos, reads, ops })
}
fn local_strategy() -> impl Strategy<Value = LocalCase> {
    (1u16..=6000, any::<u32>(), ranges_strategy(8), read_script_strategy(), prop_oneof![3 => Just(None), 1 => any::<u16>().prop_map(Some)], prop_oneof![Just(None), (any::<u16>(), 1u16..500).prop_map(Some)])
        .prop_map(|(data_len, seed, ranges, reads, eof_at, read_at)| LocalCase { data_len, seed, ranges, reads, eof_at, read_at })
}
fn step_strategy() -> impl Strategy<Value = Step> {
    prop_oneof![
        3 => Just(Step::Ok),
        1 => Just(Step::Drop),
        4 => prop_oneof![3 => Just(0u16), 3 => 1u16..=8, 3 => 1u16..=300, 1 => Just(u16::MAX)].prop_map(Step::Cut),
        1 => prop_oneof![Just(0u16), 1u16..=100].prop_map(Step::Short),
    ]
}
fn http_strategy() -> impl Strategy<Value = HttpCase> {
    (
        1u16..=3000,
        any::<u32>(),
        ranges_strategy(6),
        prop::collection::vec(step_strategy(), 0..7),
        0u32..=3,
        prop_oneof![2 => Just(vec![]), 1 => prop::collection::vec(1u8..40, 1..4)],
        prop::bool::weighted(0.3),
        prop_oneof![2 => Just(None), 1 => (any::<u16>(), 1u16..300).prop_map(Some)],
    )
        .prop_map(|(data_len, seed, ranges, steps, budget, pieces, chunked, read_at)| HttpCase { data_len, seed, ranges, steps, budget, pieces, chunked, read_at })
}

impl Prop for C08 {
    fn id(&self) -> &'static str {
        "C08"
    }
    fn meta(&self, _tier: Tier) -> Meta {
        Meta {
            level: "fault_enumeration",
            rule: "local: data blob x range lists (placed, adjacent, overlapping, unordered; sizes >= 1) x read scripts (short reads of 1,2,3,7,random sizes, Pending at scripted polls) x early EOF, through IoReader::read_chunks / read_at on a fresh reader. biglocal: read_at and read_chunks of ranges of 1 MiB + 1 .. 2.3 MB out of files of 2.3-4.2 MB. session: ONE local reader, possibly consumed up to an arbitrary position before it was wrapped, used for 1-5 operations in a row (read_at, read_chunks read to the end, read_chunks dropped after k items), range lists starting at offset 0 with weight 1/7. hsession: ONE HttpReader for 2-4 operations in a row against one scripted server whose fault steps span the whole session (also an operation after a failed one). http: the same range lists through HttpReader::read_chunks / read_at against the scripted server with a per-request fault step (ok | accept-and-drop | cut after k body bytes (FIN; under chunked encoding a cut at or behind the end of the body means: all data chunks, no terminating chunk) | clean early end after k bytes), retry budget 0..3, delay 0, body flushed in pieces or chunked transfer encoding. 'cuts': for bodies of <= 40 bytes EVERY cut offset 0..len of the first request x second-request step in {ok, cut 0, cut 1, drop} x budget 0..3 x {one run, a second run behind a gap} x {Content-Length, chunked encoding}. Oracle: items == requested slices in order; the Range log equals the resume model exactly (request i+1 starts at offset + bytes received, at most 1+budget requests per run of adjacent ranges); budget exhaustion or an early clean end gives Err after a correct prefix and then the end of the stream; read_at returns exactly size bytes or Err and re-requests the whole range. Non-trivial = a mid-body cut followed by a resume, budget exhaustion, clean early end, or a short read inside a chunk / early EOF; distinct by Blake2 of the canonical case.".into(),
            assumptions: vec!["the server returns correct bytes whenever it answers (wrong data is C04's domain); zero-length ranges are outside the domain (no caller produces them)".into(), "true 'connection refused' is replaced by accept-and-drop".into()],
            ..Meta::default()
        }
    }
    fn run_worker(&self, cx: &mut WorkerCtx) {
        let t = cx.tier;
        cx.run_prop("local", t.pick(60_000, 1_000_000), local_strategy(), run_local);
        cx.run_prop("session", t.pick(60_000, 1_000_000), session_strategy(), run_session);
        cx.run_prop("biglocal", t.pick(96, 2000), biglocal_strategy(), run_biglocal);
        // exhaustive cut offsets
        if std::env::var("VERIF_ONLY").map(|o| o.split(',').any(|v| v == "cuts")).unwrap_or(true) {
            let lens: Vec<u16> = t.pick(vec![1, 2, 7, 24], vec![1, 2, 3, 7, 16, 24, 40]);
            let mut index = 0u64;
            let mut count = 0u64;
            'outer: for &len in &lens {
                for cut in 0..=len {
                    for second in [Step::Ok, Step::Cut(0), Step::Cut(1), Step::Drop] {
                        for (budget, two_runs, chunked) in (0..=3u32).flat_map(|b| [(b, false, false), (b, false, true), (b, true, false), (b, true, true)]) {
                            index += 1;
                            if !cx.mine(index) {
                                continue;
                            }
                            // one run of three adjacent ranges covering `len` bytes; with `two_runs` a second run follows behind a
                            // gap, so that the first request is not the last one of the stream
                            let a = (len / 3).max(1);
                            let mut ranges = vec![RangeSpec { start: 6000, len: a, rel: 0 }, RangeSpec { start: 0, len: a, rel: 1 }, RangeSpec { start: 0, len: len.saturating_sub(2 * a).max(1), rel: 1 }];
                            if two_runs {
                                ranges.push(RangeSpec { start: 40_000, len: 5, rel: 0 });
                                ranges.push(RangeSpec { start: 0, len: 3, rel: 1 });
                            }
                            let case = HttpCase { data_len: 400, seed: len as u32, ranges, steps: vec![Step::Cut(cut), second.clone()], budget, pieces: vec![], chunked, read_at: None };
                            count += 1;
                            let key = key_of(&case);
                            if !cx.eval_case("cuts", &case, key, |rec| run_http(&case, rec)) && cx.stats.failures.len() >= 3 {
                                break 'outer;
                            }
                        }
                    }
                }
            }
            cx.set_exhaustive("every_cut_offset_of_first_request_x_second_step_x_budget_0to3", count);
            // every split point of small bodies (pure fragmentation, no fault): plain and chunked transfer encoding
            let mut splits = 0u64;
            'split: for &len in &lens {
                for k in 1..len.max(2) {
                    for chunked in [false, true] {
                        index += 1;
                        if !cx.mine(index) {
                            continue;
                        }
                        let a = (len / 3).max(1);
                        let ranges = vec![RangeSpec { start: 9000, len: a, rel: 0 }, RangeSpec { start: 0, len: a, rel: 1 }, RangeSpec { start: 0, len: len.saturating_sub(2 * a).max(1), rel: 1 }];
                        // pieces [k, rest...]: the first flush ends after k bytes
                        let case = HttpCase { data_len: 400, seed: len as u32 + 77, ranges, steps: vec![], budget: 0, pieces: vec![k.min(255) as u8, 255], chunked, read_at: Some((3, len)) };
                        splits += 1;
                        let key = key_of(&case);
                        if !cx.eval_case("splits", &case, key, |rec| {
                            run_http(&case, rec)?;
                            rec.nontrivial = true;
                            rec.class("body_split_point_enumerated");
                            Ok(())
                        }) && cx.stats.failures.len() >= 3
                        {
                            break 'split;
                        }
                    }
                }
            }
            cx.set_exhaustive("every_split_point_of_small_bodies_plain_and_chunked", splits);
        }
        cx.run_prop("http", t.pick(6_000, 120_000), http_strategy(), run_http);
        cx.run_prop("hsession", t.pick(3_000, 60_000), hsession_strategy(), run_hsession);
        cx.run_prop("cli", t.pick(1600, 30_000), cli_strategy(), run_cli);
        let _ = std::fs::remove_dir_all(crate::props::c01::worker_dir("C08"));
    }
    fn replay(&self, _cx: &mut WorkerCtx, variant: &str, case: &Value) -> Result<(), String> {
        let mut rec = CaseRec::default();
        match variant {
            "splits" | "cuts" => run_http(&serde_json::from_value(case.clone()).map_err(|e| e.to_string())?, &mut rec),
            "cli" => run_cli(&serde_json::from_value(case.clone()).map_err(|e| e.to_string())?, &mut rec),
            "hsession" => run_hsession(&serde_json::from_value(case.clone()).map_err(|e| e.to_string())?, &mut rec),
            "session" => run_session(&serde_json::from_value(case.clone()).map_err(|e| e.to_string())?, &mut rec),
            "local" => run_local(&serde_json::from_value(case.clone()).map_err(|e| e.to_string())?, &mut rec),
            "biglocal" => run_biglocal(&serde_json::from_value(case.clone()).map_err(|e| e.to_string())?, &mut rec),
            _ => run_http(&serde_json::from_value(case.clone()).map_err(|e| e.to_string())?, &mut rec),
        }
    }
}
