//! C07 — adjacent missing chunks are fetched with a single range request.
use crate::enc::{encode_archive, EncSpec};
use crate::engine::*;
use crate::gen::*;
use crate::http;
use crate::props::l2scen;
use crate::scen::*;
use bitar::archive_reader::HttpReader;
use bitar::{Archive, ChunkIndex, HashSum};
use futures_util::StreamExt;
use proptest::prelude::*;
use serde::{Deserialize, Serialize};
use serde_json::Value;
use std::sync::Arc;

pub struct C07;

#[derive(Clone, Debug, Serialize, Deserialize)]
pub struct ArchCase {
    pub source: SourceSpec,
    pub cfg: ArchCfg,
    /// None = archive written by bitar's library writer; Some = independent encoder with this layout
    pub enc: Option<EncSpec>,
}

#[derive(Clone, Debug, Serialize, Deserialize)]
pub struct Case {
    pub arch: ArchCase,
    /// body delivery: 0 = at once; 1 = one piece per stored chunk size (pieces end exactly on chunk boundaries);
    /// n >= 2 = pieces of n bytes. Fragmentation is not a transfer failure: the request sequence must not change.
    #[serde(default)]
    pub pieces: u16,
    /// where the ChunkIndex handed to chunk_stream says the wanted chunks go in the output: 0 = all at offset 0,
    /// 1 = ascending in dictionary order, 2 = descending, 3 = scattered. The requests depend on WHICH chunks are missing,
    /// never on where the caller is going to put them.
    #[serde(default)]
    pub index_mode: u8,
    /// subsets of descriptors to fetch, as bit masks over the dictionary order (bit i = descriptor i)
    pub masks: Vec<Vec<bool>>,
    /// per subset: 0 = the fetch is drained; a > 0 = the caller drops the stream after some of its items (1..n-1, monotone
    /// in a). All fetches of a case go through ONE Archive / HttpReader, so what an abandoned fetch leaves behind in the
    /// reader meets the next fetch, whose requests must again be exactly its own runs.
    #[serde(default)]
    pub abandon: Vec<u16>,
}

/// maximal runs of adjacent ranges, in order: (first byte, last byte) inclusive
pub fn expected_runs(ranges: &[(u64, usize)]) -> Vec<(u64, u64)> {
    let mut out: Vec<(u64, u64)> = vec![];
    let mut prev_end: Option<u64> = None;
    for &(o, n) in ranges {
        match (prev_end, out.last_mut()) {
            (Some(pe), Some(last)) if pe == o => last.1 = o + n as u64 - 1,
            _ => out.push((o, o + n as u64 - 1)),
        }
        prev_end = Some(o + n as u64);
    }
    out
}

thread_local! {
    pub static TRANSPORT_RETRIES: std::cell::Cell<u64> = std::cell::Cell::new(0);
}

pub struct Built {
    pub bytes: Arc<Vec<u8>>,
    /// absolute stored ranges in dictionary order + checksums
    pub descr: Vec<(u64, usize, Vec<u8>, u32)>,
    pub header_len: usize,
}

pub fn build(a: &ArchCase) -> Result<Option<Built>, String> {
    let source = Arc::new(expand(&a.source));
    let bytes = match &a.enc {
        None => crate::util::block_on(crate::l1::compress_lib(source.clone(), &a.cfg, ReadScript::full(), &Default::default()))?,
        Some(spec) => {
            let e = encode_archive(&source, &a.cfg, spec);
            if e.truncated_collision {
                return Ok(None);
            }
            e.bytes
        }
    };
    let h = crate::refs::format::decode_header(&bytes).map_err(|e| format!("harness: archive not decodable: {}", e))?;
    let descr = h.dictionary.chunk_descriptors.iter().map(|d| (h.chunk_data_offset + d.archive_offset, d.archive_size as usize, d.checksum.clone(), d.source_size)).collect();
    Ok(Some(Built { bytes: Arc::new(bytes), descr, header_len: h.header_len }))
}

/// Fetch each subset through Archive::chunk_stream over HttpReader and compare the server's Range log.
pub fn run_masks(b: &Built, hash_len: usize, pieces: u16, index_mode: u8, abandon: &[u16], masks: &mut dyn Iterator<Item = Vec<bool>>, mut per_mask: impl FnMut(&[bool], usize, usize)) -> Result<(), String> {
    let script = match pieces {
        0 => http::Script { max_requests: 1 << 30, ..Default::default() },
        1 => {
            // all descriptors of these archives are stored back to back in dictionary order or not, but their
            // stored sizes are what a "chunk-wise flushing" server would use
            let sizes: Vec<usize> = b.descr.iter().map(|d| d.1.max(1)).collect();
            let uniform = sizes.first().copied().unwrap_or(1);
            http::Script { rules: vec![(http::When::Always, http::Action { pieces: vec![uniform], pace_us: 300, ..Default::default() })], data_from: 0, max_requests: 1 << 30 }
        }
        n => http::Script { rules: vec![(http::When::Always, http::Action { pieces: vec![n as usize], pace_us: 300, ..Default::default() })], data_from: 0, max_requests: 1 << 30 },
    };
    let srv = http::Server::start(b.bytes.clone(), script);
    let url: reqwest::Url = srv.url().parse().unwrap();
    crate::util::block_on(async {
        let reader = HttpReader::from_url(url);
        let mut archive = Archive::try_init(reader).await.map_err(|e| format!("try_init over HTTP failed: {}", e))?;
        let hdr_reqs = srv.requests();
        // (how the header is fetched is not C07's business: only the chunk-data requests that follow are judged)
        let _ = &hdr_reqs;
        for (mi, mask) in masks.enumerate() {
          let mut attempt = 0;
          loop {
            attempt += 1;
            let before = srv.requests().len();
            let mut idx = ChunkIndex::new_empty(hash_len);
            let mut sel: Vec<(u64, usize)> = vec![];
            for (i, d) in b.descr.iter().enumerate() {
                if mask.get(i).copied().unwrap_or(false) {
                    let off: u64 = match index_mode % 4 {
                        0 => 0,
                        1 => i as u64 * 70_000,
                        2 => (b.descr.len() - i) as u64 * 70_000,
                        _ => ((i as u64 + 1).wrapping_mul(2654435761) % 1009) * 70_000,
                    };
                    idx.add_chunk(HashSum::from(&d.2[..]), d.3 as usize, &[off]);
                    sel.push((d.0, d.1));
                }
            }
            let stop_after: Option<usize> = match abandon.get(mi).copied().unwrap_or(0) {
                a if a > 0 && sel.len() >= 2 => Some(1 + crate::gen::idx(a, sel.len() - 1)),
                _ => None,
            };
            let mut got_items = 0usize;
            {
                let mut stream = archive.chunk_stream(&idx);
                let mut transport_err: Option<String> = None;
                while let Some(item) = stream.next().await {
                    let c = match item {
                        Ok(c) => c,
                        Err(e) => {
                            transport_err = Some(format!("chunk_stream item {} failed without any injected fault: {} ({:?})", got_items, e, std::error::Error::source(&e).map(|s| s.to_string())));
                            break;
                        }
                    };
                    let want = sel.get(got_items).ok_or("more items than selected descriptors")?;
                    if c.len() != want.1 {
                        return Err(format!("item {} has {} bytes, descriptor stores {}", got_items, c.len(), want.1));
                    }
                    got_items += 1;
                    if Some(got_items) == stop_after {
                        break;
                    }
                }
                drop(stream);
                if let Some(te) = transport_err {
                    // loopback connection churn very occasionally resets a connection; a real defect persists
                    if attempt < 3 {
                        TRANSPORT_RETRIES.with(|c| c.set(c.get() + 1));
                        continue;
                    }
                    return Err(te);
                }
            }
            if got_items != sel.len() && stop_after.is_none() {
                return Err(format!("stream yielded {} items for {} selected descriptors", got_items, sel.len()));
            }
            let log = srv.requests();
            let got: Vec<(u64, u64)> = log[before..].iter().map(|r| r.range.unwrap_or((u64::MAX, 0))).collect();
            let want = expected_runs(&sel);
            if stop_after.is_some() {
                // an abandoned fetch: what it did request must be the leading runs (the statement is about complete fetches)
                if got.len() > want.len() || got[..] != want[..got.len()] {
                    return Err(format!("requests: abandoned fetch of subset {:?}: requests {:?} are not the leading runs of {:?}", mask.iter().map(|b| if *b { '1' } else { '0' }).collect::<String>(), got, want));
                }
                break;
            }
            if got != want {
                let i = got.iter().zip(want.iter()).position(|(a, b)| a != b).unwrap_or(got.len().min(want.len()));
                return Err(format!(
                    "requests: subset {:?}: request #{} is {:?}, expected {:?} ({} requests sent, {} maximal runs of adjacent chunks)",
                    mask.iter().map(|b| if *b { '1' } else { '0' }).collect::<String>(),
                    i,
                    got.get(i).map(|r| format!("bytes={}-{}", r.0, r.1)),
                    want.get(i).map(|r| format!("bytes={}-{}", r.0, r.1)),
                    got.len(),
                    want.len()
                ));
            }
            per_mask(&mask, want.len(), sel.len());
            break;
          }
        }
        Ok(())
    })
}

fn run_case(c: &Case, rec: &mut CaseRec) -> Result<(), String> {
    if !c.arch.cfg.chunker.is_valid() {
        rec.excluded = Some("invalid_config".into());
        return Ok(());
    }
    let Some(b) = build(&c.arch)? else {
        rec.excluded = Some("collision_guard".into());
        return Ok(());
    };
    let mut nontrivial = false;
    let mut it = c.masks.iter().cloned();
    run_masks(&b, c.arch.cfg.hash_len, c.pieces, c.index_mode, &c.abandon, &mut it, |_m, runs, sel| {
        if runs >= 2 && sel > runs {
            nontrivial = true;
        }
    })?;
    rec.nontrivial = nontrivial;
    rec.level = Some("L1");
    rec.class_if(c.arch.enc.is_some(), "independent_encoder_layout");
    rec.class_if(c.pieces == 1, "body_pieces_end_on_chunk_boundaries");
    rec.class_if(c.pieces >= 2, "body_in_small_pieces");
    rec.class_if(c.abandon.iter().take(c.masks.len().saturating_sub(1)).any(|a| *a > 0), "fetch_after_an_abandoned_fetch_on_the_same_reader");
    rec.class_if(c.index_mode % 4 >= 2, "index_places_chunks_in_another_order");
    rec.class_if(c.arch.enc.as_ref().map(|e| !e.desc_keys.is_empty()).unwrap_or(false), "descriptor_table_not_in_first_occurrence_order");
    rec.class_if(c.arch.enc.as_ref().map(|e| !e.order_keys.is_empty()).unwrap_or(false), "dictionary_order_not_file_order");
    rec.class_if(c.arch.enc.as_ref().map(|e| e.gaps.iter().any(|g| *g > 0)).unwrap_or(false), "gaps_between_chunks");
    Ok(())
}

/// A server that is merely SLOW: it goes silent for `pause_ms` in the middle of the first run's body and then carries on.
/// Slowness is not a transfer failure: the requests must still be exactly the runs (the reader is given a retry budget, so
/// that a reader which mistakes the pause for a failure shows it as an extra request rather than as an error).
#[derive(Clone, Debug, Serialize, Deserialize)]
pub struct SlowCase {
    pub arch: ArchCase,
    pub mask: Vec<bool>,
    pub pause_ms: u32,
}

fn run_slow(c: &SlowCase, rec: &mut CaseRec) -> Result<(), String> {
    let Some(b) = build(&c.arch)? else {
        rec.excluded = Some("collision_guard".into());
        return Ok(());
    };
    let sel: Vec<(u64, usize)> = b.descr.iter().enumerate().filter(|(i, _)| c.mask.get(*i).copied().unwrap_or(false)).map(|(_, d)| (d.0, d.1)).collect();
    let want = expected_runs(&sel);
    if want.is_empty() {
        rec.excluded = Some("empty_subset".into());
        return Ok(());
    }
    let first_len = (want[0].1 - want[0].0 + 1) as usize;
    let script = http::Script {
        rules: vec![(http::When::NthData(0), http::Action { pause_after: Some((first_len / 2, c.pause_ms)), ..Default::default() })],
        data_from: b.header_len as u64,
        max_requests: 1 << 20,
    };
    let srv = http::Server::start(b.bytes.clone(), script);
    let url: reqwest::Url = srv.url().parse().unwrap();
    let hash_len = c.arch.cfg.hash_len;
    crate::util::block_on(async {
        let reader = HttpReader::from_url(url).retries(2).retry_delay(std::time::Duration::from_secs(0));
        let mut archive = Archive::try_init(reader).await.map_err(|e| format!("try_init over HTTP failed: {}", e))?;
        let before = srv.requests().len();
        let mut idx = ChunkIndex::new_empty(hash_len);
        for (i, d) in b.descr.iter().enumerate() {
            if c.mask.get(i).copied().unwrap_or(false) {
                idx.add_chunk(HashSum::from(&d.2[..]), d.3 as usize, &[i as u64 * 70_000]);
            }
        }
        let mut n = 0usize;
        {
            let mut stream = archive.chunk_stream(&idx);
            while let Some(item) = stream.next().await {
                item.map_err(|e| format!("chunk_stream item {} failed although the server only paused for {} ms: {}", n, c.pause_ms, e))?;
                n += 1;
            }
        }
        if n != sel.len() {
            return Err(format!("stream yielded {} items for {} selected descriptors", n, sel.len()));
        }
        let got: Vec<(u64, u64)> = srv.requests()[before..].iter().map(|r| r.range.unwrap_or((u64::MAX, 0))).collect();
        if got != want {
            return Err(format!("requests: a server pausing for {} ms inside the first run got {:?}, expected exactly the runs {:?}", c.pause_ms, got, want));
        }
        Ok(())
    })?;
    rec.nontrivial = true;
    rec.level = Some("L1");
    rec.class("server_pauses_mid_body_then_carries_on");
    Ok(())
}

fn slow_strategy() -> impl Strategy<Value = SlowCase> {
    (small_archive_strategy(8), prop::collection::vec(prop::bool::weighted(0.7), 8), 11_500u32..14_000).prop_map(|(arch, mut mask, pause_ms)| {
        mask[0] = true;
        SlowCase { arch, mask, pause_ms }
    })
}

fn small_archive_strategy(max_chunks: usize) -> impl Strategy<Value = ArchCase> {
    (
        1usize..=max_chunks,
        1u32..40,
        any::<u32>(),
        prop_oneof![Just(Comp::None), Just(Comp::Brotli(3)), Just(Comp::Zstd(3))],
        hash_len_strategy(8),
        prop_oneof![
            2 => Just(None),
            3 => (prop::collection::vec(any::<u16>(), 0..6), prop::collection::vec(prop_oneof![3 => Just(0u8), 1 => 1u8..9], 0..5), 0u16..20, prop_oneof![2 => Just(vec![]), 1 => prop::collection::vec(any::<u16>(), 1..6), 1 => Just(vec![5u16, 4, 3, 2, 1, 0])])
                .prop_map(|(order_keys, gaps, slack, desc_keys)| Some(EncSpec { order_keys, gaps, slack, desc_keys, version: "x".into(), ..Default::default() })),
        ],
        any::<bool>(),
    )
        .prop_map(|(n, size, seed, comp, hash_len, enc, text)| {
            let total = n as u32 * size;
            let seg = if text { Seg::Text { n: total, seed } } else { Seg::Random { n: total, seed } };
            ArchCase { source: vec![seg], cfg: ArchCfg { chunker: ChunkerCfg { algo: Algo::FixedSize, bits: 0, min: 0, max: size as usize, window: 0 }, hash_len, comp, buffers: 2 }, enc }
        })
}

fn random_mask_case_strategy() -> impl Strategy<Value = Case> {
    (
        small_archive_strategy(60),
        prop::collection::vec(prop::collection::vec(prop::bool::weighted(0.6), 60), 1..6),
        prop_oneof![2 => Just(0u16), 2 => Just(1u16), 1 => 2u16..40],
        0u8..4,
        prop_oneof![1 => Just(vec![]), 1 => prop::collection::vec(prop_oneof![1 => Just(0u16), 1 => any::<u16>()], 5)],
    )
        .prop_map(|(arch, masks, pieces, index_mode, abandon)| Case { arch, masks, pieces, index_mode, abandon })
}

fn l2_case(c: &l2scen::L2Scen, rec: &mut CaseRec) -> Result<(), String> {
    let mut c = c.clone();
    c.http = true;
    let s = &c.scen;
    if !crate::l2::cli_expressible(&s.cfg.chunker) {
        rec.excluded = Some("not_cli_expressible".into());
        return Ok(());
    }
    let mut e = expectations(s);
    normalise_block_dev(s, &mut e);
    if e.collision {
        rec.excluded = Some("collision_guard".into());
        return Ok(());
    }
    let o = l2scen::execute("C07", &c, &e, None, None)?;
    let dir = crate::props::c01::worker_dir("C07");
    crate::props::c01::clean_dir(&dir);
    if !o.run.ok() {
        // a failing clone is C01 / C02 / C03's business; the requests of a run that broke off are not judged
        rec.excluded = Some("clone_failed_(judged_by_C01_C02_C03_not_here)".into());
        return Ok(());
    }
    let h = &o.header;
    let hl = e.hash_len;
    let sel: Vec<(u64, usize)> = h
        .dictionary
        .chunk_descriptors
        .iter()
        .filter(|d| e.missing.contains(&d.checksum[..hl.min(d.checksum.len())].to_vec()))
        .map(|d| (h.chunk_data_offset + d.archive_offset, d.archive_size as usize))
        .collect();
    let want = expected_runs(&sel);
    let got: Vec<(u64, u64)> = o.http_log.iter().filter_map(|r| r.range).filter(|r| r.0 >= h.header_len as u64).collect();
    if got != want {
        let i = got.iter().zip(want.iter()).position(|(a, b)| a != b).unwrap_or(got.len().min(want.len()));
        return Err(format!("requests: chunk-data request #{} is {:?}, expected {:?} ({} requests, {} maximal runs)", i, got.get(i), want.get(i), got.len(), want.len()));
    }
    rec.level = Some("L2");
    rec.nontrivial = want.len() >= 2 && sel.len() > want.len();
    Ok(())
}

impl Prop for C07 {
    fn id(&self) -> &'static str {
        "C07"
    }
    fn meta(&self, _tier: Tier) -> Meta {
        Meta {
            rule: "variant 'subsets': archives with <= 10 descriptors (bitar's writer, or the independent encoder with permuted / padded stored chunks so that dictionary order != file order) x EVERY subset of descriptors, fetched through Archive::chunk_stream(&ChunkIndex) over HttpReader from the scripted server; 'masks': archives with up to 60 descriptors x 1-5 random subsets fetched one after the other through ONE Archive / HttpReader, half of the cases dropping some of the streams after a few items (what an abandoned fetch leaves in the reader must not change the next fetch's requests); 'slow': a server that goes silent for 11.5-14 s in the middle of the first run's body and then carries on (slowness is not a transfer failure); 'l2': `bita clone URL` with seeds / prior output (subset induced by R3). No transfer faults. Oracle: filter descriptors (dictionary order) by the subset, split where end_i != offset_{i+1}; the server's chunk-data Range log must equal, in order, bytes=first.offset-(last.end-1) of each run. Non-trivial = >= 2 runs and at least one run of >= 2 chunks; distinct by Blake2 of (archive case, subset).".into(),
            assumptions: vec!["plain HTTP/1.1 on loopback, one connection per request (Connection: close)".into()],
            ..Meta::default()
        }
    }
    fn run_worker(&self, cx: &mut WorkerCtx) {
        let t = cx.tier;
        if std::env::var("VERIF_ONLY").map(|o| o.split(',').any(|v| v == "subsets")).unwrap_or(true) {
            let pool = cx.sample_n("subsets", &small_archive_strategy(10), t.pick(64, 800));
            let mut count = 0u64;
            for (i, arch) in pool.iter().enumerate() {
                if !cx.mine(i as u64) {
                    continue;
                }
                let Ok(Some(b)) = build(arch) else { continue };
                let n = b.descr.len();
                if n > 10 {
                    continue;
                }
                let total = 1usize << n;
                // enumerate all subsets in one server session; on failure report the (archive, mask) pair
                let mut stats: Vec<(Vec<bool>, usize, usize)> = vec![];
                let mut it = (0..total).map(|m| (0..n).map(|k| (m >> k) & 1 == 1).collect::<Vec<bool>>());
                let pieces: u16 = match i % 3 { 0 => 0, 1 => 1, _ => 7 };
                let index_mode: u8 = ((i / 3) % 4) as u8;
                let r = guarded(|| run_masks(&b, arch.cfg.hash_len, pieces, index_mode, &[], &mut it, |m, runs, sel| stats.push((m.to_vec(), runs, sel))));
                count += stats.len() as u64;
                for (m, runs, sel) in &stats {
                    let mut rec = CaseRec::default();
                    rec.nontrivial = *runs >= 2 && sel > runs;
                    rec.level = Some("L1");
                    rec.class_if(arch.enc.is_some(), "independent_encoder_layout");
                    rec.class_if(pieces == 1, "body_pieces_end_on_chunk_boundaries");
                    rec.class_if(pieces >= 2, "body_in_small_pieces");
                    let key = blake2_64(&[b"subsets", &(i as u64).to_le_bytes(), format!("{:?}", m).as_bytes(), &cx.seed.to_le_bytes()]);
                    let arch2 = arch.clone();
                    let m2 = m.clone();
                    cx.account(rec, key, move || serde_json::to_value(&Case { arch: arch2, masks: vec![m2], pieces, index_mode, abandon: vec![] }).unwrap());
                }
                if let Err(f) = r {
                    // the failing mask is the one after the last accounted one; shrink by replaying single masks
                    let failing = (0..total)
                        .map(|m| (0..n).map(|k| (m >> k) & 1 == 1).collect::<Vec<bool>>())
                        .find(|m| {
                            let mut one = std::iter::once(m.clone());
                            run_masks(&b, arch.cfg.hash_len, pieces, index_mode, &[], &mut one, |_, _, _| {}).is_err()
                        });
                    let case = Case { arch: arch.clone(), masks: vec![failing.unwrap_or_default()], pieces, index_mode, abandon: vec![] };
                    cx.fail("subsets", serde_json::to_value(&case).unwrap(), &f);
                    break;
                }
            }
            cx.set_exhaustive("all_subsets_of_descriptors_of_archives_with_le_10_descriptors", count);
        }
        cx.run_prop("masks", t.pick(1200, 30_000), random_mask_case_strategy(), run_case);
        // 16 cases side by side, one per worker: ~14 s of wall clock in the quick tier
        cx.run_prop("slow", t.pick(16, 64), slow_strategy(), run_slow);
        let retries = TRANSPORT_RETRIES.with(|c| c.get());
        if retries > 0 {
            cx.count_class("harness_transport_retry", retries);
        }
        cx.run_prop("l2", t.pick(1200, 20_000), l2scen::l2scen_strategy(scenario_strategy(8, true, true).boxed()), l2_case);
        let _ = std::fs::remove_dir_all(crate::props::c01::worker_dir("C07"));
    }
    fn replay(&self, _cx: &mut WorkerCtx, variant: &str, case: &Value) -> Result<(), String> {
        let mut rec = CaseRec::default();
        match variant {
            "l2" => l2_case(&serde_json::from_value(case.clone()).map_err(|e| e.to_string())?, &mut rec),
            "slow" => run_slow(&serde_json::from_value(case.clone()).map_err(|e| e.to_string())?, &mut rec),
            _ => run_case(&serde_json::from_value(case.clone()).map_err(|e| e.to_string())?, &mut rec),
        }
    }
}
