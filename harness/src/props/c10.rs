//! C10 — chunk boundaries resynchronise after differing prefixes.
use crate::engine::*;
use crate::gen::*;
use crate::props::c09::run_bitar;
use proptest::prelude::*;
use serde::{Deserialize, Serialize};
use serde_json::Value;
use std::collections::BTreeSet;
use std::sync::Arc;

pub struct C10;

#[derive(Clone, Debug, Serialize, Deserialize)]
pub struct Case {
    pub cfg: ChunkerCfg,
    pub p1: SourceSpec,
    pub p2: SourceSpec,
    pub s: SourceSpec,
    /// how each stream is delivered to the chunker (read sizes / Pending); a stream is a stream however it arrives
    #[serde(default = "ReadScript::full")]
    pub r1: ReadScript,
    #[serde(default = "ReadScript::full")]
    pub r2: ReadScript,
}

/// boundaries (end offsets of chunks) relative to the start of S, only those inside S
fn boundaries(cfg: &ChunkerCfg, prefix: &[u8], s: &[u8], reads: &ReadScript) -> Result<BTreeSet<usize>, String> {
    let mut data = prefix.to_vec();
    data.extend_from_slice(s);
    let chunks = run_bitar(cfg, Arc::new(data), reads)?;
    let mut out = BTreeSet::new();
    for (off, bytes) in chunks {
        let end = off as usize + bytes.len();
        if end >= prefix.len() {
            out.insert(end - prefix.len());
        }
    }
    Ok(out)
}

pub fn run_case(c: &Case, rec: &mut CaseRec) -> Result<(), String> {
    if !c.cfg.is_valid() {
        rec.excluded = Some("invalid_config".into());
        return Ok(());
    }
    let mut p1 = expand(&c.p1);
    let p2 = expand(&c.p2);
    let s = expand(&c.s);
    if c.cfg.algo == Algo::FixedSize {
        // aligned case: |P1| == |P2| (mod n)
        let n = c.cfg.max;
        let want = p2.len() % n;
        while p1.len() % n != want {
            p1.push(0xAB);
        }
    }
    let b1 = boundaries(&c.cfg, &p1, &s, &c.r1)?;
    let b2 = boundaries(&c.cfg, &p2, &s, &c.r2)?;
    let w = if c.cfg.algo == Algo::FixedSize { 0 } else { c.cfg.window };
    // first common boundary at least one window into S (the end of the stream is a boundary of both by construction
    // and is not counted as a synchronisation point)
    let q = b1.iter().find(|q| **q >= w && **q < s.len() && b2.contains(q)).copied();
    rec.class(format!("{:?}", c.cfg.algo));
    rec.class_if(p1.is_empty() || p2.is_empty(), "empty_prefix");
    rec.class_if(c.r1 != ReadScript::full() || c.r2 != ReadScript::full(), "fragmented_delivery");
    rec.class_if(c.r1 != c.r2, "streams_delivered_differently");
    rec.class_if(s.len() > 1 << 20, "stream_longer_than_the_1MiB_refill_size");
    rec.class_if(p1.last() == Some(&0) || p2.last() == Some(&0), "prefix_ends_in_zero");
    let Some(q) = q else {
        rec.class("no_common_boundary");
        return Ok(());
    };
    let after1: Vec<usize> = b1.iter().filter(|x| **x > q).copied().collect();
    let after2: Vec<usize> = b2.iter().filter(|x| **x > q).copied().collect();
    if after1 != after2 {
        let i = after1.iter().zip(after2.iter()).position(|(a, b)| a != b).unwrap_or(after1.len().min(after2.len()));
        return Err(format!(
            "resync: both streams cut at position {} of the common data (window {}), but later boundaries differ: #{} is {:?} after prefix 1 ({} bytes) and {:?} after prefix 2 ({} bytes)",
            q,
            w,
            i,
            after1.get(i),
            p1.len(),
            after2.get(i),
            p2.len()
        ));
    }
    rec.nontrivial = after1.len() >= 2 && p1 != p2;
    rec.class_if(s[q.saturating_sub(w)..q.min(s.len())].iter().all(|b| *b == 0) && w > 0, "window_of_zeros_at_sync");
    Ok(())
}

fn prefix_strategy() -> impl Strategy<Value = SourceSpec> {
    prop_oneof![
        1 => Just(vec![]),
        3 => source_strategy(3, 120),
        2 => (source_strategy(2, 100), 0u32..40).prop_map(|(mut p, z)| {
            p.push(Seg::Const { b: 0, n: z });
            p
        }),
        1 => (0u32..300).prop_map(|n| vec![Seg::Const { b: 0, n }]),
    ]
}

fn case_strategy() -> impl Strategy<Value = Case> {
    (
        small_chunker_strategy(),
        prefix_strategy(),
        prefix_strategy(),
        prop_oneof![3 => source_strategy(6, 1200), 3 => zero_heavy_strategy(8, 200)],
        prop_oneof![3 => Just(ReadScript::full()), 2 => read_script_strategy()],
        prop_oneof![3 => Just(ReadScript::full()), 2 => read_script_strategy()],
    )
        .prop_map(|(mut cfg, p1, p2, s, r1, r2)| {
            // small filter bits so both streams cut often
            if cfg.algo != Algo::FixedSize && cfg.bits > 6 {
                cfg.bits = 1 + cfg.bits % 6;
            }
            Case { cfg, p1, p2, s, r1, r2 }
        })
}

/// Streams longer than the chunker's 1 MiB refill size, read like a file (as much as the chunker asks for): the refill
/// points fall at different places of S in the two streams because the prefixes differ in length.
fn refill_strategy() -> impl Strategy<Value = Case> {
    (
        prop_oneof![Just(Algo::RollSum), Just(Algo::BuzHash)],
        7u32..=12,
        prop_oneof![Just(16usize), Just(32), Just(64), 1usize..=128],
        prop_oneof![Just(0usize), 0usize..=8192, Just(2048usize)],
        2048usize..=70_000,
        (0u32..6000, any::<u32>()),
        (0u32..6000, any::<u32>()),
        (1_060_000u32..2_300_000, any::<u32>(), 0u32..3000),
        prop_oneof![4 => Just(ReadScript::full()), 1 => Just(ReadScript { sizes: vec![65536], pending_every: 0 }), 1 => Just(ReadScript { sizes: vec![1000, 0], pending_every: 3 })],
    )
        .prop_map(|(algo, bits, window, min, extra, (n1, s1), (n2, s2), (ns, ss, z), r)| {
            let max = (min + extra).max(window);
            let cfg = ChunkerCfg { algo, bits, min, max, window };
            let s = vec![Seg::Random { n: ns / 2, seed: ss }, Seg::Const { b: 0, n: z }, Seg::Random { n: ns - ns / 2, seed: ss ^ 0x55 }];
            Case { cfg, p1: vec![Seg::Random { n: n1, seed: s1 }], p2: vec![Seg::Random { n: n2, seed: s2 }], s, r1: r.clone(), r2: r }
        })
}

impl Prop for C10 {
    fn id(&self) -> &'static str {
        "C10"
    }
    fn meta(&self, _tier: Tier) -> Meta {
        Meta {
            rule: "cases = (config, prefix P1, prefix P2, common suffix S): prefixes of 0..300 bytes incl. empty and prefixes ending in zero runs, S from the general and the zero-run-heavy source generators, filter bits <= 6 so both streams cut often; each stream delivered to the chunker in one piece (60%) or through its own read script (fixed 1/2/3/7-byte reads, mixed sizes up to 5000, Pending every k-th poll); FixedSize with |P1| == |P2| (mod n). Variant 'refill': common data of 1.06-2.3 MB (above the chunker's 1 MiB refill size) behind prefixes of 0..6000 bytes, windows 1..128, min 0..8192, filter bits 7..12. Oracle (metamorphic, the statement itself): chunk P1+S and P2+S with bitar's chunker; at the first position q >= window of S where both place a boundary, all later boundaries (relative to S) must coincide. Non-trivial = such a q exists before the end of S, the prefixes differ and >= 2 chunks follow q; distinct by Blake2 of the canonical case.".into(),
            ..Meta::default()
        }
    }
    fn run_worker(&self, cx: &mut WorkerCtx) {
        let t = cx.tier;
        cx.run_prop("resync", t.pick(3_000_000, 30_000_000), case_strategy(), run_case);
        cx.run_prop("refill", t.pick(1600, 40_000), refill_strategy(), run_case);
    }
    fn replay(&self, _cx: &mut WorkerCtx, _variant: &str, case: &Value) -> Result<(), String> {
        let mut rec = CaseRec::default();
        run_case(&serde_json::from_value(case.clone()).map_err(|e| e.to_string())?, &mut rec)
    }
}
