//! C10 — chunk boundaries resynchronise after differing prefixes.
use crate::engine::*;
use crate::gen::*;
use crate::props::c09::run_bitar;
use proptest::prelude::*;
use serde::{Deserialize, Serialize};
use serde_json::Value;
use std::collections::BTreeSet;
use std::sync::Arc;

pub struct C10;

#[derive(Clone, Debug, Serialize, Deserialize)]
pub struct Case {
    pub cfg: ChunkerCfg,
    pub p1: SourceSpec,
    pub p2: SourceSpec,
    pub s: SourceSpec,
}

/// boundaries (end offsets of chunks) relative to the start of S, only those inside S
fn boundaries(cfg: &ChunkerCfg, prefix: &[u8], s: &[u8]) -> Result<BTreeSet<usize>, String> {
    let mut data = prefix.to_vec();
    data.extend_from_slice(s);
    let chunks = run_bitar(cfg, Arc::new(data), &ReadScript::full())?;
    let mut out = BTreeSet::new();
    for (off, bytes) in chunks {
        let end = off as usize + bytes.len();
        if end >= prefix.len() {
            out.insert(end - prefix.len());
        }
    }
    Ok(out)
}

fn run_case(c: &Case, rec: &mut CaseRec) -> Result<(), String> {
    if !c.cfg.is_valid() {
        rec.excluded = Some("invalid_config".into());
        return Ok(());
    }
    let mut p1 = expand(&c.p1);
    let p2 = expand(&c.p2);
    let s = expand(&c.s);
    if c.cfg.algo == Algo::FixedSize {
        // aligned case: |P1| == |P2| (mod n)
        let n = c.cfg.max;
        let want = p2.len() % n;
        while p1.len() % n != want {
            p1.push(0xAB);
        }
    }
    let b1 = boundaries(&c.cfg, &p1, &s)?;
    let b2 = boundaries(&c.cfg, &p2, &s)?;
    let w = if c.cfg.algo == Algo::FixedSize { 0 } else { c.cfg.window };
    // first common boundary at least one window into S (the end of the stream is a boundary of both by construction
    // and is not counted as a synchronisation point)
    let q = b1.iter().find(|q| **q >= w && **q < s.len() && b2.contains(q)).copied();
    rec.class(format!("{:?}", c.cfg.algo));
    rec.class_if(p1.is_empty() || p2.is_empty(), "empty_prefix");
    rec.class_if(p1.last() == Some(&0) || p2.last() == Some(&0), "prefix_ends_in_zero");
    let Some(q) = q else {
        rec.class("no_common_boundary");
        return Ok(());
    };
    let after1: Vec<usize> = b1.iter().filter(|x| **x > q).copied().collect();
    let after2: Vec<usize> = b2.iter().filter(|x| **x > q).copied().collect();
    if after1 != after2 {
        let i = after1.iter().zip(after2.iter()).position(|(a, b)| a != b).unwrap_or(after1.len().min(after2.len()));
        return Err(format!(
            "resync: both streams cut at position {} of the common data (window {}), but later boundaries differ: #{} is {:?} after prefix 1 ({} bytes) and {:?} after prefix 2 ({} bytes)",
            q,
            w,
            i,
            after1.get(i),
            p1.len(),
            after2.get(i),
            p2.len()
        ));
    }
    rec.nontrivial = after1.len() >= 2 && p1 != p2;
    rec.class_if(s[q.saturating_sub(w)..q.min(s.len())].iter().all(|b| *b == 0) && w > 0, "window_of_zeros_at_sync");
    Ok(())
}

fn prefix_strategy() -> impl Strategy<Value = SourceSpec> {
    prop_oneof![
        1 => Just(vec![]),
        3 => source_strategy(3, 120),
        2 => (source_strategy(2, 100), 0u32..40).prop_map(|(mut p, z)| {
            p.push(Seg::Const { b: 0, n: z });
            p
        }),
        1 => (0u32..300).prop_map(|n| vec![Seg::Const { b: 0, n }]),
    ]
}

fn case_strategy() -> impl Strategy<Value = Case> {
    (
        small_chunker_strategy(),
        prefix_strategy(),
        prefix_strategy(),
        prop_oneof![3 => source_strategy(6, 1200), 3 => zero_heavy_strategy(8, 200)],
    )
        .prop_map(|(mut cfg, p1, p2, s)| {
            // small filter bits so both streams cut often
            if cfg.algo != Algo::FixedSize && cfg.bits > 6 {
                cfg.bits = 1 + cfg.bits % 6;
            }
            Case { cfg, p1, p2, s }
        })
}

impl Prop for C10 {
    fn id(&self) -> &'static str {
        "C10"
    }
    fn meta(&self, _tier: Tier) -> Meta {
        Meta {
            rule: "cases = (config, prefix P1, prefix P2, common suffix S): prefixes of 0..300 bytes incl. empty and prefixes ending in zero runs, S from the general and the zero-run-heavy source generators, filter bits <= 6 so both streams cut often; FixedSize with |P1| == |P2| (mod n). Oracle (metamorphic, the statement itself): chunk P1+S and P2+S with bitar's chunker; at the first position q >= window of S where both place a boundary, all later boundaries (relative to S) must coincide. Non-trivial = such a q exists before the end of S, the prefixes differ and >= 2 chunks follow q; distinct by Blake2 of the canonical case.".into(),
            ..Meta::default()
        }
    }
    fn run_worker(&self, cx: &mut WorkerCtx) {
        let t = cx.tier;
        cx.run_prop("resync", t.pick(3_000_000, 30_000_000), case_strategy(), run_case);
    }
    fn replay(&self, _cx: &mut WorkerCtx, _variant: &str, case: &Value) -> Result<(), String> {
        let mut rec = CaseRec::default();
        run_case(&serde_json::from_value(case.clone()).map_err(|e| e.to_string())?, &mut rec)
    }
}
