//! C02 — seeds never change what a clone produces.
use crate::engine::*;
use crate::scen::*;
use proptest::prelude::*;
use serde_json::Value;

pub struct C02;

pub fn scenario_case(s: &Scenario, rec: &mut CaseRec) -> Result<(), String> {
    if !s.cfg.chunker.is_valid() {
        rec.excluded = Some("invalid_config".into());
        return Ok(());
    }
    let mut e = expectations(s);
    normalise_block_dev(s, &mut e);
    if e.collision {
        rec.excluded = Some("collision_guard".into());
        return Ok(());
    }
    let o = evaluate_l1(s, &e, vec![])?;
    // a clone of an intact archive with readable seeds has no reason to fail either
    o.report.result.clone().map_err(|x| format!("clone failed: {} (stage {})", x, o.report.stage))?;
    let out = o.report.output.as_ref().unwrap();
    check_final_output(s, &e, &out.data)?;
    classify_scenario(rec, s, &e);
    rec.level = Some("L1");
    rec.nontrivial = !e.in_seeds.is_empty() && e.in_seeds.len() < e.src_keys.len();
    Ok(())
}

/// A clone that takes 12-16 seconds because one stage is slow (a slow disk, a slow pipe): how long a stage takes must
/// not change the output either. One chunk occurs at 36-51 places of the source and comes from the seed, so feeding it
/// is a long loop of writes; `what` selects the slow operation: 0 = every write to the output, 1 = every read of the
/// seed file, 2 = every read of the archive.
#[derive(Clone, Debug, serde::Serialize, serde::Deserialize)]
pub struct SlowCase {
    pub what: u8,
    pub reps: u8,
    pub stdin: bool,
    pub seed: u32,
}

fn run_slow(c: &SlowCase, rec: &mut CaseRec) -> Result<(), String> {
    use crate::gen::*;
    use crate::props::l2scen::{execute, L2Scen};
    let reps = 36 + (c.reps % 16) as u32;
    let mut source: SourceSpec = vec![];
    for i in 0..reps {
        source.push(Seg::Const { b: 0xA5, n: 64 });
        source.push(Seg::Random { n: 64, seed: c.seed.wrapping_add(i) });
    }
    let cfg = ArchCfg { chunker: ChunkerCfg { algo: Algo::FixedSize, bits: 0, min: 0, max: 64, window: 0 }, hash_len: 64, comp: Comp::None, buffers: 2 };
    let seeds = vec![(Related::Unrelated(vec![Seg::Random { n: 64, seed: c.seed ^ 9 }, Seg::Const { b: 0xA5, n: 64 }, Seg::Random { n: 128, seed: c.seed ^ 7 }]), ReadScript::full())];
    let scen = Scenario { source, cfg, seeds, prior: None, inplace: false, block_dev: false, clone_buffers: 2 };
    let what = c.what % 3;
    let stdin = c.stdin && what != 1;
    let l2c = L2Scen { scen: scen.clone(), http: false, stdin_seed: if stdin { Some(0) } else { None }, verify_output: false, cli_writer: false, fault: None };
    let e = expectations(&scen);
    let delay = match what {
        0 => ("write".to_string(), "o.out".to_string(), 13_500_000 / reps, None),
        1 => ("read".to_string(), "seed0.bin".to_string(), 6_500_000, None),
        _ => ("read".to_string(), "a.cba".to_string(), 300_000, None),
    };
    let hook = crate::l2::Hook { delay: vec![delay], ..Default::default() };
    let _ = std::fs::create_dir_all(crate::props::c01::worker_dir("C02"));
    let t0 = std::time::Instant::now();
    let o = execute("C02", &l2c, &e, Some(hook), None)?;
    let secs = t0.elapsed().as_secs_f64();
    let dir = crate::props::c01::worker_dir("C02");
    crate::props::c01::clean_dir(&dir);
    if o.run.timed_out {
        return Err(format!("[timeout] bita clone: {}", o.run.describe()));
    }
    if !o.run.ok() {
        return Err(format!("bita clone failed: {}", o.run.describe()));
    }
    let out = o.output.as_ref().ok_or("bita clone exit 0 but no output file")?;
    check_final_output(&scen, &e, out).map_err(|m| format!("{} (a clone slowed down to {:.0} s: {})", m, secs, ["slow output writes", "slow seed reads", "slow archive reads"][what as usize]))?;
    rec.level = Some("L2");
    rec.class(["slow_output_writes", "slow_seed_reads", "slow_archive_reads"][what as usize]);
    rec.class_if(stdin, "stdin_seed");
    rec.class_if(secs >= 10.0, "clone_took_10s_or_more");
    rec.nontrivial = secs >= 5.0;
    Ok(())
}

pub fn seeds_scenario_strategy() -> impl Strategy<Value = Scenario> {
    // hash length 4..64: by-design collisions are discarded by the exact collision guard
    scenario_strategy(4, true, true).prop_map(|mut s| {
        if s.seeds.is_empty() {
            s.seeds.push((crate::gen::Related::Edited(vec![crate::gen::Edit::Delete { at: 20000, len: 37 }]), crate::gen::ReadScript::full()));
        }
        s
    })
}

impl Prop for C02 {
    fn id(&self) -> &'static str {
        "C02"
    }
    fn meta(&self, _tier: Tier) -> Meta {
        Meta {
            rule: "cases = clone scenarios: archive of a generated source (library or CLI writer) x 1-4 seed streams derived from the source by edit scripts (insert/delete/replace-same-size/duplicate/move/truncate/append/prepend), the source itself, unrelated data or empty, each with its own read script, x optional prior output (plain overwrite, --seed-output, block device) x hash length 4..64. L1: mirror of clone_cmd on the in-memory output; L2: real `bita clone --seed f ... --seed -`. Variant 'slow': a seeded clone stretched to 12-16 s by delaying every output write / seed read / archive read (iohook), one chunk going to 36-51 places. Oracle (metamorphic): a clone that reports success leaves exactly the source (what the seedless clone produces). Cases where two different chunk contents share a truncated hash are detected exactly by R3's collision guard and discarded (counted). Non-trivial = at least one source chunk is found in a seed and at least one is not; distinct by Blake2 of the canonical case.".into(),
            assumptions: vec!["'chunks found in a seed' is computed with the reference chunker R1 and the harness's own Blake2".into()],
            ..Meta::default()
        }
    }
    fn run_worker(&self, cx: &mut WorkerCtx) {
        let t = cx.tier;
        cx.run_prop("l1", t.pick(24_000, 400_000), seeds_scenario_strategy(), scenario_case);
        crate::props::l2scen::run_l2_variant(cx, "C02", t.pick(2400, 30000), seeds_scenario_strategy().boxed(), |_s, e, rec| {
            rec.nontrivial = !e.in_seeds.is_empty() && e.in_seeds.len() < e.src_keys.len();
        });
        // one slow clone per worker in the quick tier (they run side by side)
        cx.run_prop("slow", t.pick(16, 160), (0u8..3, any::<u8>(), any::<bool>(), any::<u32>()).prop_map(|(what, reps, stdin, seed)| SlowCase { what, reps, stdin, seed }), run_slow);
    }
    fn replay(&self, _cx: &mut WorkerCtx, variant: &str, case: &Value) -> Result<(), String> {
        let mut rec = CaseRec::default();
        match variant {
            "l2" => crate::props::l2scen::replay_l2("C02", case, &mut rec),
            "slow" => run_slow(&serde_json::from_value(case.clone()).map_err(|e| e.to_string())?, &mut rec),
            _ => scenario_case(&serde_json::from_value(case.clone()).map_err(|e| e.to_string())?, &mut rec),
        }
    }
}
