//! C02 — seeds never change what a clone produces.
use crate::engine::*;
use crate::scen::*;
use proptest::prelude::*;
use serde_json::Value;

pub struct C02;

pub fn scenario_case(s: &Scenario, rec: &mut CaseRec) -> Result<(), String> {
    if !s.cfg.chunker.is_valid() {
        rec.excluded = Some("invalid_config".into());
        return Ok(());
    }
    let mut e = expectations(s);
    normalise_block_dev(s, &mut e);
    if e.collision {
        rec.excluded = Some("collision_guard".into());
        return Ok(());
    }
    let o = evaluate_l1(s, &e, vec![])?;
    // a clone of an intact archive with readable seeds has no reason to fail either
    o.report.result.clone().map_err(|x| format!("clone failed: {} (stage {})", x, o.report.stage))?;
    let out = o.report.output.as_ref().unwrap();
    check_final_output(s, &e, &out.data)?;
    classify_scenario(rec, s, &e);
    rec.level = Some("L1");
    rec.nontrivial = !e.in_seeds.is_empty() && e.in_seeds.len() < e.src_keys.len();
    Ok(())
}

pub fn seeds_scenario_strategy() -> impl Strategy<Value = Scenario> {
    // hash length 4..64: by-design collisions are discarded by the exact collision guard
    scenario_strategy(4, true, true).prop_map(|mut s| {
        if s.seeds.is_empty() {
            s.seeds.push((crate::gen::Related::Edited(vec![crate::gen::Edit::Delete { at: 20000, len: 37 }]), crate::gen::ReadScript::full()));
        }
        s
    })
}

impl Prop for C02 {
    fn id(&self) -> &'static str {
        "C02"
    }
    fn meta(&self, _tier: Tier) -> Meta {
        Meta {
            rule: "cases = clone scenarios: archive of a generated source (library or CLI writer) x 1-4 seed streams derived from the source by edit scripts (insert/delete/replace-same-size/duplicate/move/truncate/append/prepend), the source itself, unrelated data or empty, each with its own read script, x optional prior output (plain overwrite, --seed-output, block device) x hash length 4..64. L1: mirror of clone_cmd on the in-memory output; L2: real `bita clone --seed f ... --seed -`. Oracle (metamorphic): a clone that reports success leaves exactly the source (what the seedless clone produces). Cases where two different chunk contents share a truncated hash are detected exactly by R3's collision guard and discarded (counted). Non-trivial = at least one source chunk is found in a seed and at least one is not; distinct by Blake2 of the canonical case.".into(),
            assumptions: vec!["'chunks found in a seed' is computed with the reference chunker R1 and the harness's own Blake2".into()],
            ..Meta::default()
        }
    }
    fn run_worker(&self, cx: &mut WorkerCtx) {
        let t = cx.tier;
        cx.run_prop("l1", t.pick(24_000, 400_000), seeds_scenario_strategy(), scenario_case);
        crate::props::l2scen::run_l2_variant(cx, "C02", t.pick(2400, 30000), seeds_scenario_strategy().boxed(), |_s, e, rec| {
            rec.nontrivial = !e.in_seeds.is_empty() && e.in_seeds.len() < e.src_keys.len();
        });
    }
    fn replay(&self, _cx: &mut WorkerCtx, variant: &str, case: &Value) -> Result<(), String> {
        let mut rec = CaseRec::default();
        match variant {
            "l2" => crate::props::l2scen::replay_l2("C02", case, &mut rec),
            _ => scenario_case(&serde_json::from_value(case.clone()).map_err(|e| e.to_string())?, &mut rec),
        }
    }
}
