//! C01 — compress then clone reproduces the source byte-for-byte.
use crate::engine::*;
use crate::gen::*;
use crate::l1::{self, CloneOpts, RtShape};
use crate::l2;
use crate::refs::format as fmt;
use crate::scen::*;
use crate::util::{blake2b512, describe_diff};
use proptest::prelude::*;
use serde::{Deserialize, Serialize};
use serde_json::Value;
use std::collections::BTreeMap;
use std::sync::Arc;

pub struct C01;

#[derive(Clone, Debug, Serialize, Deserialize)]
pub struct L1Case {
    pub source: SourceSpec,
    pub cfg: ArchCfg,
    pub reads: ReadScript,
    pub rt: RtShape,
    pub clone_reads: ReadScript,
    pub clone_buffers: usize,
    /// the clone output accepts at most this many bytes per write call (0 = unlimited)
    #[serde(default)]
    pub max_write: u32,
}

#[derive(Clone, Debug, Serialize, Deserialize)]
pub struct CornerCase {
    pub comp: Comp,
    pub which: u16,
    pub layout: Vec<u8>,
    pub hash_len: usize,
    pub buffers: usize,
    pub rt: RtShape,
}

#[derive(Clone, Copy, Debug, Serialize, Deserialize, PartialEq)]
pub enum Path2 {
    CliCli,
    CliStdinCli,
    LibCli,
    CliLib,
    CliHttpCli,
}

#[derive(Clone, Debug, Serialize, Deserialize)]
pub struct L2Case {
    pub source: SourceSpec,
    pub cfg: ArchCfg,
    pub path: Path2,
    /// (op, suffix, usec, k)
    pub delays: Vec<(String, String, u32, Option<u32>)>,
    pub clone_buffers: usize,
    pub verify_output: bool,
    /// the CLI clone goes onto an output path that already holds this many bytes of other data (`--force-create`):
    /// shorter than, as long as, or longer than the source
    #[serde(default)]
    pub existing_output: Option<u32>,
    /// how the scripted server delivers over HTTP: 0 = every body at once; 1 = bodies dribble in in small paced pieces;
    /// 2 = the first chunk-data response breaks off after `http_k` bytes; 3 = the first chunk-data request gets no response
    /// at all. For 2 and 3 the clone runs with `--http-retry-count 2`: a transfer failure within the retry budget is no
    /// reason to fail (C08), so the round trip must hold all the same.
    #[serde(default)]
    pub http_delivery: u8,
    #[serde(default)]
    pub http_k: u16,
}

/// The source-describing header fields, judged by the independent decoder.
pub fn check_header_records_source(archive: &[u8], source: &[u8]) -> Result<fmt::Header, String> {
    let h = fmt::decode_header(archive).map_err(|e| format!("archive not decodable by the reference decoder: {}", e))?;
    if h.dictionary.source_total_size != source.len() as u64 {
        return Err(format!("header: source_total_size {} != true source length {}", h.dictionary.source_total_size, source.len()));
    }
    if h.dictionary.source_checksum != blake2b512(source) {
        return Err("header: source_checksum is not Blake2b-512 of the source".into());
    }
    Ok(h)
}

pub fn classify_source(rec: &mut CaseRec, cfg: &ArchCfg, source: &[u8], h: &fmt::Header) {
    let d = &h.dictionary;
    let n = source.len();
    let c = &cfg.chunker;
    rec.class(format!("{:?}", c.algo));
    rec.class(match cfg.comp {
        Comp::None => "comp_none",
        Comp::Brotli(_) => "comp_brotli",
        Comp::Zstd(_) => "comp_zstd",
        Comp::Lzma(_) => "comp_lzma",
    });
    rec.class_if(n == 0, "empty");
    rec.class_if(n == 1, "one_byte");
    if c.algo != Algo::FixedSize {
        rec.class_if(n > 0 && n < c.window, "lt_window");
        rec.class_if(n > 0 && n < c.min, "lt_min");
        rec.class_if(n > 0 && n == c.min, "eq_min");
    }
    rec.class_if(n == c.max, "eq_max");
    rec.class_if(n + 1 == c.max || n == c.max + 1, "max_pm1");
    rec.class_if(d.rebuild_order.len() > d.chunk_descriptors.len(), "duplicate_chunk");
    rec.class_if(d.rebuild_order.len() >= 2, "multi_chunk");
    rec.class_if(cfg.comp != Comp::None && d.chunk_descriptors.iter().any(|x| x.archive_size == x.source_size), "stored_raw_under_compression");
    rec.class_if(d.chunk_descriptors.iter().any(|x| x.source_size > 1024 * 1024), "chunk_over_1MiB");
    rec.class_if(cfg.hash_len < 64, "truncated_hash");
    rec.class_if(cfg.buffers >= 2, "buffers_ge_2");
    rec.nontrivial = d.rebuild_order.len() >= 2
        || n <= 1
        || (c.algo != Algo::FixedSize && (n < c.window || n <= c.min))
        || n == c.max
        || n + 1 == c.max
        || n == c.max + 1
        || d.chunk_descriptors.iter().any(|x| x.source_size > 1024 * 1024);
}

fn l1_roundtrip(source: Arc<Vec<u8>>, cfg: &ArchCfg, reads: &ReadScript, rt: &RtShape, clone_reads: &ReadScript, clone_buffers: usize, max_write: usize, rec: &mut CaseRec) -> Result<fmt::Header, String> {
    let runtime = rt.build();
    let archive = runtime.block_on(l1::compress_lib(source.clone(), cfg, reads.clone(), &BTreeMap::new()))?;
    let h = check_header_records_source(&archive, &source)?;
    let archive = Arc::new(archive);
    let (reader, _log) = l1::local_reader(archive.clone(), clone_reads.clone());
    let opts = CloneOpts { buffers: clone_buffers, max_write, ..Default::default() };
    let rep = runtime.block_on(l1::clone_mirror(reader, &opts));
    rec.class_if(max_write > 0, "output_accepts_partial_writes");
    rep.result.clone().map_err(|e| format!("clone failed: {} (stage {})", e, rep.stage))?;
    if rep.source_size != source.len() as u64 {
        return Err(format!("reader: total_source_size {} != {}", rep.source_size, source.len()));
    }
    let out = rep.output.unwrap();
    if out.data != **source {
        return Err(describe_diff("output differs from source", &out.data, &source));
    }
    rec.level = Some("L1");
    rec.class_if(rt.multi, "multi_thread_rt");
    classify_source(rec, cfg, &source, &h);
    Ok(h)
}

fn run_l1(c: &L1Case, rec: &mut CaseRec) -> Result<(), String> {
    if !c.cfg.chunker.is_valid() {
        rec.excluded = Some("invalid_config".into());
        return Ok(());
    }
    let source = Arc::new(expand(&c.source));
    l1_roundtrip(source, &c.cfg, &c.reads, &c.rt, &c.clone_reads, c.clone_buffers, c.max_write as usize, rec).map(|_| ())
}

thread_local! {
    static CORNERS: std::cell::RefCell<BTreeMap<String, Arc<Vec<Vec<u8>>>>> = std::cell::RefCell::new(BTreeMap::new());
}
pub fn corners_for(comp: Comp) -> Arc<Vec<Vec<u8>>> {
    CORNERS.with(|m| {
        m.borrow_mut()
            .entry(format!("{:?}", comp))
            .or_insert_with(|| Arc::new(mine_corners(comp, 100)))
            .clone()
    })
}

fn run_corner(c: &CornerCase, rec: &mut CaseRec) -> Result<(), String> {
    let corners = corners_for(c.comp);
    if corners.is_empty() {
        rec.excluded = Some("no_corner_chunk_for_codec".into());
        return Ok(());
    }
    let corner = &corners[idx(c.which, corners.len())];
    let n = corner.len();
    let mut src = Vec::new();
    let mut r = SplitMix(c.which as u64);
    let mut has_corner = false;
    for (i, l) in c.layout.iter().enumerate() {
        match l % 3 {
            0 => {
                src.extend_from_slice(corner);
                has_corner = true;
            }
            1 => r.fill(&mut src, n),
            _ => src.extend(std::iter::repeat(i as u8).take(n)),
        }
    }
    let cfg = ArchCfg { chunker: ChunkerCfg { algo: Algo::FixedSize, bits: 0, min: 0, max: n, window: 0 }, hash_len: c.hash_len, comp: c.comp, buffers: c.buffers };
    let source = Arc::new(src);
    let h = l1_roundtrip(source, &cfg, &ReadScript::full(), &c.rt, &ReadScript::full(), c.buffers, 0, rec)?;
    if has_corner {
        rec.class("corner_compressed_size_eq_len");
        rec.nontrivial = true;
        // the corner chunk must have been stored with archive_size == source_size
        let _ = h;
    }
    Ok(())
}

pub fn l2_roundtrip(dir: &std::path::Path, tag: &str, c: &L2Case, source: &[u8], rec: &mut CaseRec) -> Result<(), String> {
    let hook = if c.delays.is_empty() { None } else { Some(l2::Hook { delay: c.delays.clone(), ..Default::default() }) };
    // 1. archive
    let archive: Vec<u8> = match c.path {
        Path2::CliCli | Path2::CliLib | Path2::CliHttpCli => compress_cli(dir, tag, source, &c.cfg, false, &[], hook.as_ref())?.0,
        Path2::CliStdinCli => compress_cli(dir, tag, source, &c.cfg, true, &[], hook.as_ref())?.0,
        Path2::LibCli => {
            let a = crate::util::block_on(l1::compress_lib(Arc::new(source.to_vec()), &c.cfg, ReadScript::full(), &BTreeMap::new()))?;
            l2::write_file(&dir.join(format!("{}.cba", tag)), &a);
            a
        }
    };
    let h = check_header_records_source(&archive, source)?;
    // 2. clone
    let out_name = format!("{}.out", tag);
    let _ = std::fs::remove_file(dir.join(&out_name));
    match c.path {
        Path2::CliLib => {
            let (reader, _log) = l1::local_reader(Arc::new(archive.clone()), ReadScript::full());
            let rep = crate::util::block_on(l1::clone_mirror(reader, &CloneOpts { buffers: c.clone_buffers, ..Default::default() }));
            rep.result.clone().map_err(|e| format!("library clone of a CLI archive failed: {}", e))?;
            let out = rep.output.unwrap();
            if out.data != source {
                return Err(describe_diff("output differs from source", &out.data, source));
            }
        }
        Path2::CliHttpCli => {
            use crate::http::{Action, Script, When};
            let script = match c.http_delivery % 4 {
                1 => Script { rules: vec![(When::Always, Action { pieces: vec![(1 + c.http_k as usize % 977).max(source.len() / 1500)], pace_us: 200, ..Default::default() })], data_from: h.header_len as u64, max_requests: 0 },
                2 => Script { rules: vec![(When::NthData(0), Action { cut_after: Some(c.http_k as usize), pieces: vec![5000], ..Default::default() })], data_from: h.header_len as u64, max_requests: 0 },
                3 => Script { rules: vec![(When::NthData(0), Action { drop: true, ..Default::default() })], data_from: h.header_len as u64, max_requests: 0 },
                _ => Script::default(),
            };
            let srv = crate::http::Server::start(Arc::new(archive.clone()), script);
            let mut extra = vec!["--buffered-chunks".to_string(), c.clone_buffers.to_string()];
            if c.http_delivery % 4 >= 2 {
                extra.extend(["--http-retry-count".to_string(), "2".to_string(), "--http-retry-delay".to_string(), "0".to_string()]);
            }
            if c.verify_output {
                extra.push("--verify-output".into());
            }
            if let Some(n) = c.existing_output {
                let mut junk = Vec::new();
                SplitMix(n as u64 ^ 0x0dd).fill(&mut junk, n as usize);
                l2::write_file(&dir.join(&out_name), &junk);
                extra.push("--force-create".into());
            }
            let (r, out) = clone_cli(dir, &srv.url(), &out_name, &extra, None, None, false, &[]);
            drop(srv);
            if r.timed_out {
                return Err(format!("[timeout] bita clone (http): {}", r.describe()));
            }
            if !r.ok() {
                return Err(format!("bita clone over HTTP failed: {}", r.describe()));
            }
            let out = out.ok_or("bita clone exit 0 but no output file")?;
            if out != source {
                return Err(describe_diff("output differs from source", &out, source));
            }
        }
        _ => {
            let mut extra = vec!["--buffered-chunks".to_string(), c.clone_buffers.to_string()];
            if c.verify_output {
                extra.push("--verify-output".into());
            }
            if let Some(n) = c.existing_output {
                let mut junk = Vec::new();
                SplitMix(n as u64 ^ 0x0dd).fill(&mut junk, n as usize);
                l2::write_file(&dir.join(&out_name), &junk);
                extra.push("--force-create".into());
            }
            let log = dir.join(format!("{}.clonelog", tag));
            let chook = if c.delays.is_empty() { None } else { Some(l2::Hook { delay: c.delays.clone(), ..Default::default() }) };
            let (r, out) = clone_cli(dir, &format!("{}.cba", tag), &out_name, &extra, None, chook.as_ref().map(|h| (h, log.as_path())), false, &[]);
            if r.timed_out {
                return Err(format!("[timeout] bita clone: {}", r.describe()));
            }
            if !r.ok() {
                return Err(format!("bita clone failed: {}", r.describe()));
            }
            let out = out.ok_or("bita clone exit 0 but no output file")?;
            if out != source {
                return Err(describe_diff("output differs from source", &out, source));
            }
        }
    }
    rec.level = Some("L2");
    rec.class(format!("{:?}", c.path));
    rec.class_if(!c.delays.is_empty(), "delay_script");
    if c.path == Path2::CliHttpCli {
        rec.class_if(c.http_delivery % 4 == 1, "http_body_in_paced_pieces");
        rec.class_if(c.http_delivery % 4 == 2, "http_first_data_transfer_cut_short_within_retry_budget");
        rec.class_if(c.http_delivery % 4 == 3, "http_first_data_request_unanswered_within_retry_budget");
    }
    if c.path != Path2::CliLib {
        rec.class_if(c.existing_output.map(|n| n as usize > source.len()).unwrap_or(false), "cloned_over_a_longer_existing_file");
        rec.class_if(c.existing_output.map(|n| n as usize <= source.len()).unwrap_or(false), "cloned_over_a_shorter_or_equal_existing_file");
    }
    classify_source(rec, &c.cfg, source, &h);
    Ok(())
}

thread_local! {
    static DIR: std::cell::RefCell<Option<std::path::PathBuf>> = std::cell::RefCell::new(None);
    static SEQ: std::cell::Cell<u64> = std::cell::Cell::new(0);
}
pub fn worker_dir(prop: &str) -> std::path::PathBuf {
    DIR.with(|d| {
        let mut d = d.borrow_mut();
        if d.is_none() {
            *d = Some(scratch_dir(prop, 0));
        }
        d.clone().unwrap()
    })
}
pub fn clean_dir(dir: &std::path::Path) {
    if let Ok(rd) = std::fs::read_dir(dir) {
        for e in rd.flatten() {
            let p = e.path();
            if p.is_dir() {
                let _ = std::fs::remove_dir_all(&p);
            } else {
                let _ = std::fs::remove_file(&p);
            }
        }
    }
}

fn run_l2(c: &L2Case, rec: &mut CaseRec) -> Result<(), String> {
    if !l2::cli_expressible(&c.cfg.chunker) {
        rec.excluded = Some("not_cli_expressible".into());
        return Ok(());
    }
    let dir = worker_dir("C01");
    let seq = SEQ.with(|s| {
        s.set(s.get() + 1);
        s.get()
    });
    let source = expand(&c.source);
    let r = l2_roundtrip(&dir, &format!("c{}", seq), c, &source, rec);
    clean_dir(&dir);
    r
}

pub fn delay_strategy() -> impl Strategy<Value = Vec<(String, String, u32, Option<u32>)>> {
    let one = (
        prop_oneof![
            3 => Just(("write".to_string(), ".tmp".to_string())),
            1 => Just(("read".to_string(), ".src".to_string())),
            1 => Just(("write".to_string(), ".out".to_string())),
            1 => Just(("write".to_string(), ".cba".to_string())),
            1 => Just(("read".to_string(), ".cba".to_string())),
        ],
        prop_oneof![Just(200u32), Just(1000), Just(3000), 0u32..=5000],
        prop_oneof![2 => Just(None), 1 => (0u32..6).prop_map(Some)],
    )
        .prop_map(|((op, suf), us, k)| (op, suf, us, k));
    prop_oneof![2 => Just(vec![]), 3 => prop::collection::vec(one, 1..3)]
}

fn l1_strategy() -> impl Strategy<Value = L1Case> {
    (
        prop_oneof![4 => source_strategy(6, 2000), 1 => zero_heavy_strategy(6, 400)],
        arch_cfg_strategy(4, false),
        read_script_strategy(),
        l1::rt_shape_strategy(),
        prop_oneof![3 => Just(ReadScript::full()), 1 => read_script_strategy()],
        buffers_strategy(),
        prop_oneof![2 => Just(0u32), 1 => Just(1u32), 1 => 1u32..=64, 1 => Just(4096u32)],
    )
        .prop_map(|(source, cfg, reads, rt, clone_reads, clone_buffers, max_write)| L1Case { source, cfg, reads, rt, clone_reads, clone_buffers, max_write })
}
/// sources built around the configuration's own size landmarks (window, min, max)
fn l1_landmark_strategy() -> impl Strategy<Value = L1Case> {
    (arch_cfg_strategy(4, true), 0usize..8, any::<u32>(), l1::rt_shape_strategy(), 0u8..3).prop_map(|(cfg, which, seed, rt, kind)| {
        let c = cfg.chunker;
        let n = match which {
            0 => 0,
            1 => 1,
            2 => c.window.saturating_sub(1),
            3 => c.min.saturating_sub(1),
            4 => c.min,
            5 => c.max,
            6 => c.max + 1,
            _ => c.max.saturating_sub(1),
        } as u32;
        let seg = match kind {
            0 => Seg::Random { n, seed },
            1 => Seg::Const { b: 0, n },
            _ => Seg::Text { n, seed },
        };
        L1Case { source: vec![seg], cfg, reads: ReadScript::full(), rt, clone_reads: ReadScript::full(), clone_buffers: 2, max_write: (seed % 3) * 5 }
    })
}
fn l1_big_strategy(max_seg: u32) -> impl Strategy<Value = L1Case> {
    (
        large_chunker_strategy(),
        prop::collection::vec(
            prop_oneof![
                3 => (0u32..=max_seg, any::<u32>()).prop_map(|(n, seed)| Seg::Random { n, seed }),
                2 => (0u32..=max_seg).prop_map(|n| Seg::Const { b: 0, n }),
                1 => (0u32..=max_seg, any::<u32>()).prop_map(|(n, seed)| Seg::Text { n, seed }),
                1 => (any::<u16>(), 0u32..=max_seg).prop_map(|(at, len)| Seg::CopyOf { at, len }),
            ],
            1..4,
        ),
        prop_oneof![Just(Comp::None), Just(Comp::Brotli(1)), Just(Comp::Zstd(1)), Just(Comp::Brotli(4))],
        prop_oneof![Just(1usize), Just(3), Just(8)],
        l1::rt_shape_strategy(),
    )
        .prop_map(|(chunker, source, comp, buffers, rt)| L1Case {
            source,
            cfg: ArchCfg { chunker, hash_len: 64, comp, buffers },
            reads: ReadScript { sizes: vec![1 << 20, 70000], pending_every: 0 },
            rt,
            clone_reads: ReadScript::full(),
            clone_buffers: buffers,
            // tokio::fs::File takes at most 2 MiB per write call
            max_write: 2 * 1024 * 1024,
        })
}
/// memory-hungry levels, few chunks
fn l1_heavy_strategy() -> impl Strategy<Value = L1Case> {
    (heavy_comp_strategy(), 0u32..=600, any::<u32>(), 0u8..3, 1usize..=3, hash_len_strategy(4)).prop_map(|(comp, n, seed, kind, parts, hash_len)| {
        let seg = match kind {
            0 => Seg::Random { n, seed },
            1 => Seg::Const { b: 7, n },
            _ => Seg::Text { n, seed },
        };
        let size = ((n as usize) / parts).max(1);
        L1Case {
            source: vec![seg],
            cfg: ArchCfg { chunker: ChunkerCfg { algo: Algo::FixedSize, bits: 0, min: 0, max: size, window: 0 }, hash_len, comp, buffers: 2 },
            reads: ReadScript::full(),
            rt: RtShape::current(),
            clone_reads: ReadScript::full(),
            clone_buffers: 1,
            max_write: 0,
        }
    })
}
fn corner_strategy() -> impl Strategy<Value = CornerCase> {
    (
        prop_oneof![Just(Comp::Brotli(1)), Just(Comp::Brotli(6)), Just(Comp::Brotli(9)), Just(Comp::Brotli(11)), Just(Comp::Zstd(1)), Just(Comp::Zstd(3)), Just(Comp::Zstd(9)), Just(Comp::Lzma(1))],
        any::<u16>(),
        prop::collection::vec(0u8..3, 1..6),
        hash_len_strategy(4),
        buffers_strategy(),
        l1::rt_shape_strategy(),
    )
        .prop_map(|(comp, which, layout, hash_len, buffers, rt)| CornerCase { comp, which, layout, hash_len, buffers: if comp.heavy() { buffers.min(2) } else { buffers }, rt })
}
pub fn l2_strategy() -> impl Strategy<Value = L2Case> {
    (
        prop_oneof![4 => source_strategy(5, 3000), 1 => zero_heavy_strategy(5, 400), 1 => Just(vec![])],
        l2::cli_chunker_strategy(),
        hash_len_strategy(4),
        light_comp_strategy(),
        buffers_strategy(),
        prop_oneof![3 => Just(Path2::CliCli), 2 => Just(Path2::CliStdinCli), 1 => Just(Path2::LibCli), 1 => Just(Path2::CliLib), 2 => Just(Path2::CliHttpCli)],
        delay_strategy(),
        buffers_strategy(),
        any::<bool>(),
        (prop_oneof![3 => Just(None), 1 => (0u32..200).prop_map(Some), 2 => (0u32..8000).prop_map(Some)], prop_oneof![3 => Just(0u8), 1 => Just(1u8), 2 => Just(2u8), 1 => Just(3u8)], prop_oneof![0u16..40, any::<u16>()]),
    )
        .prop_map(|(source, chunker, hash_len, comp, buffers, path, delays, clone_buffers, verify_output, (existing_output, http_delivery, http_k))| L2Case {
            source,
            cfg: ArchCfg { chunker, hash_len, comp, buffers },
            path,
            delays,
            clone_buffers,
            verify_output,
            existing_output,
            http_delivery,
            http_k,
        })
}

/// real files, chunks above tokio::fs::File's 2 MiB write buffer and above the 1 MiB refill buffer
fn l2_big_strategy() -> impl Strategy<Value = L2Case> {
    (
        prop_oneof![
            (2_100_000usize..=3_400_000).prop_map(|n| ChunkerCfg { algo: Algo::FixedSize, bits: 0, min: 0, max: n, window: 0 }),
            Just(ChunkerCfg { algo: Algo::RollSum, bits: 15, min: 16 * 1024, max: 16 * 1024 * 1024, window: 64 }),
            Just(ChunkerCfg { algo: Algo::BuzHash, bits: 15, min: 16 * 1024, max: 16 * 1024 * 1024, window: 16 }),
        ],
        any::<u32>(),
        2_500_000u32..=5_000_000,
        prop_oneof![Just(Comp::None), Just(Comp::Brotli(1)), Just(Comp::Zstd(1))],
        prop_oneof![Just(Path2::CliCli), Just(Path2::CliStdinCli), Just(Path2::CliHttpCli), Just(Path2::LibCli)],
        any::<bool>(),
    )
        .prop_map(|(chunker, seed, n, comp, path, constant_run)| {
            // a long run of a constant non-zero byte is never cut by the rolling hash: one chunk of several MiB
            let source = if constant_run { vec![Seg::Random { n: 70_000, seed }, Seg::Const { b: 0xff, n }, Seg::Random { n: 50_000, seed: seed ^ 9 }] } else { vec![Seg::Random { n, seed }, Seg::Random { n: n / 2, seed: seed ^ 5 }] };
            L2Case { source, cfg: ArchCfg { chunker, hash_len: 64, comp, buffers: 4 }, path, delays: vec![], clone_buffers: 4, verify_output: false, existing_output: None, http_delivery: (n % 4) as u8, http_k: (seed % 60_000) as u16 }
        })
}

impl Prop for C01 {
    fn id(&self) -> &'static str {
        "C01"
    }
    fn meta(&self, tier: Tier) -> Meta {
        Meta {
            rule: "cases = (source spec, chunker config, hash length, compression, buffered-chunks, writer in {library, CLI file, CLI stdin}, reader in {library mirror, CLI local, CLI over HTTP}, runtime shape / injected syscall delays). Oracle: clone output == generated source, header (decoded by the independent codec R2) records the true length and Blake2b-512. Variants: l1 (random), landmark (sizes 0,1,window-1,min-1,min,max-1,max,max+1), corner (a chunk whose compressed size equals its length), l1big (chunks and sources above the 1 MiB refill buffer), l2 (real bita binary, cross writer/reader pairs, HTTP — bodies at once, in paced pieces, or with the first chunk-data transfer broken off / unanswered and `--http-retry-count 2`). Non-trivial = >=2 chunks or one of the named corner classes; distinct by Blake2 of the canonical case.".into(),
            assumptions: vec![
                "schedules are perturbed (runtime flavour, worker and blocking-thread counts, buffered-chunks, read fragmentation, injected syscall delays), not enumerated".into(),
                "HTTP is plain HTTP/1.1 on loopback served by the harness's scripted server".into(),
            ],
            max_workers: if tier == Tier::Thorough { 12 } else { 16 },
            ..Meta::default()
        }
    }
    fn run_worker(&self, cx: &mut WorkerCtx) {
        let t = cx.tier;
        cx.run_prop("l1", t.pick(6000, 150_000), l1_strategy(), run_l1);
        cx.run_prop("landmark", t.pick(2000, 40_000), l1_landmark_strategy(), run_l1);
        cx.run_prop("corner", t.pick(600, 12_000), corner_strategy(), run_corner);
        cx.run_prop("heavy", t.pick(48, 1500), l1_heavy_strategy(), run_l1);
        cx.run_prop("l1big", t.pick(32, 600), l1_big_strategy(t.pick(1_300_000, 2_800_000)), run_l1);
        cx.run_prop("l2", t.pick(1200, 12000), l2_strategy(), run_l2);
        cx.run_prop("l2big", t.pick(16, 400), l2_big_strategy(), run_l2);
        let dir = worker_dir("C01");
        let _ = std::fs::remove_dir_all(dir);
    }
    fn replay(&self, _cx: &mut WorkerCtx, variant: &str, case: &Value) -> Result<(), String> {
        let mut rec = CaseRec::default();
        match variant {
            "corner" => run_corner(&serde_json::from_value(case.clone()).map_err(|e| e.to_string())?, &mut rec),
            "l2" => {
                let c: L2Case = serde_json::from_value(case.clone()).map_err(|e| e.to_string())?;
                // schedule-sensitive: repeat
                for _ in 0..5 {
                    run_l2(&c, &mut rec)?;
                }
                Ok(())
            }
            _ => run_l1(&serde_json::from_value(case.clone()).map_err(|e| e.to_string())?, &mut rec),
        }
    }
}
