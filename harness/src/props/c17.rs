//! C17 — any archive conforming to the documented format is cloned correctly.
use crate::enc::{encode_archive, EncSpec, Encoded};
use crate::engine::*;
use crate::gen::*;
use crate::l1::{self, CloneOpts};
use crate::l2;
use crate::props::c01::{clean_dir, worker_dir};
use crate::refs::format as fmt;
use proptest::prelude::*;
use serde::{Deserialize, Serialize};
use serde_json::Value;
use std::collections::BTreeMap;
use std::sync::Arc;

pub struct C17;

#[derive(Clone, Debug, Serialize, Deserialize)]
pub struct Case {
    pub source: SourceSpec,
    pub cfg: ArchCfg,
    pub spec: EncSpec,
    pub seed: Option<Related>,
    pub http: bool,
    pub l2: bool,
    pub reads: ReadScript,
    /// HTTP: 0 = every response body in one piece; n > 0 = bodies flushed in paced pieces of n bytes, so that frame
    /// boundaries fall at chunk ends and inside padding (how a body is framed is the server's business)
    #[serde(default)]
    pub http_pieces: u16,
}

fn http_script(c: &Case) -> crate::http::Script {
    match c.http_pieces {
        0 => crate::http::Script::default(),
        n => crate::http::Script { rules: vec![(crate::http::When::Always, crate::http::Action { pieces: vec![n as usize], pace_us: 150, ..Default::default() })], data_from: 0, max_requests: 0 },
    }
}

fn check_accessors(e: &Encoded, c: &Case, archive: &Arc<Vec<u8>>) -> Result<(), String> {
    let (reader, _) = l1::local_reader(archive.clone(), c.reads.clone());
    let a = crate::util::block_on(bitar::Archive::try_init(reader)).map_err(|x| format!("open: try_init rejected a conforming archive: {} ({:?})", x, std::error::Error::source(&x).map(|s| s.to_string())))?;
    let d = &e.dict;
    if a.total_source_size() != d.source_total_size {
        return Err(format!("accessor: total_source_size {} != {}", a.total_source_size(), d.source_total_size));
    }
    if a.source_checksum().slice() != &d.source_checksum[..] {
        return Err("accessor: source_checksum differs".into());
    }
    let got = ChunkerCfg::from_bitar(a.chunker_config());
    let want = c.cfg.chunker;
    let same = match want.algo {
        Algo::FixedSize => got.algo == Algo::FixedSize && got.max == want.max,
        _ => got == want,
    };
    if !same {
        return Err(format!("accessor: chunker_config {:?} != encoded {:?}", got, want));
    }
    if a.chunk_hash_length() != c.cfg.hash_len {
        return Err(format!("accessor: chunk_hash_length {} != {}", a.chunk_hash_length(), c.cfg.hash_len));
    }
    match (c.spec.recorded_level, c.cfg.comp) {
        (Some(l), comp) if comp != Comp::None => {
            // bitar::Compression cannot be built with a level outside bita's own range: compare what it prints
            let want = format!("{} (level {})", match comp { Comp::Brotli(_) => "Brotli", Comp::Zstd(_) => "zstd", _ => "LZMA" }, l);
            let got = a.chunk_compression().map(|x| x.to_string());
            if got.as_deref() != Some(want.as_str()) {
                return Err(format!("accessor: chunk_compression {:?} != recorded {:?}", got, want));
            }
        }
        _ => {
            if a.chunk_compression() != c.cfg.comp.to_bitar() {
                return Err(format!("accessor: chunk_compression {:?} != {:?}", a.chunk_compression(), c.cfg.comp));
            }
        }
    }
    let md: BTreeMap<String, Vec<u8>> = a.metadata_iter().map(|(k, v)| (k.to_string(), v.to_vec())).collect();
    if md != d.metadata {
        return Err("accessor: metadata differs".into());
    }
    if a.built_with_version() != d.application_version {
        return Err(format!("accessor: built_with_version {:?} != {:?}", a.built_with_version(), d.application_version));
    }
    if a.chunk_data_offset() != e.chunk_data_offset || a.header_size() != e.header_len {
        return Err(format!("accessor: chunk_data_offset {} / header_size {} != {} / {}", a.chunk_data_offset(), a.header_size(), e.chunk_data_offset, e.header_len));
    }
    if a.unique_chunks() != d.chunk_descriptors.len() || a.total_chunks() != d.rebuild_order.len() {
        return Err("accessor: chunk counts differ".into());
    }
    for (i, (cd, st)) in a.chunk_descriptors().iter().zip(e.stored.iter()).enumerate() {
        if cd.archive_offset != st.0 || cd.archive_size != st.1 || cd.source_size != d.chunk_descriptors[i].source_size || cd.checksum.slice() != &d.chunk_descriptors[i].checksum[..] {
            return Err(format!("accessor: descriptor {} reported as offset {} size {} (encoded at {} size {})", i, cd.archive_offset, cd.archive_size, st.0, st.1));
        }
    }
    let offs: Vec<u64> = a.iter_source_chunks().map(|(o, _)| o).collect();
    let want_offs: Vec<u64> = e.chunks.iter().map(|m| m.off as u64).collect();
    if offs != want_offs {
        return Err("accessor: iter_source_chunks offsets differ from the encoded source chunks".into());
    }
    Ok(())
}

pub fn run_case(c: &Case, rec: &mut CaseRec) -> Result<(), String> {
    if !c.cfg.chunker.is_valid() {
        rec.excluded = Some("invalid_config".into());
        return Ok(());
    }
    let source = Arc::new(expand(&c.source));
    let e = encode_archive(&source, &c.cfg, &c.spec);
    if e.truncated_collision {
        rec.excluded = Some("collision_guard".into());
        return Ok(());
    }
    // sanity of the encoder itself: the independent decoder must read it back
    let back = fmt::decode_header(&e.bytes).map_err(|x| format!("harness: encoder output not decodable by R2: {}", x))?;
    if back.dictionary.chunk_descriptors != e.dict.chunk_descriptors || back.dictionary.rebuild_order != e.dict.rebuild_order {
        return Err("harness: encoder / decoder disagree".into());
    }
    let archive = Arc::new(e.bytes.clone());
    check_accessors(&e, c, &archive)?;
    let seed = c.seed.as_ref().map(|r| Arc::new(related_bytes(&source, r)));
    let opts = CloneOpts { seeds: seed.iter().map(|s| (s.clone(), ReadScript::full())).collect(), buffers: c.cfg.buffers, verify_output: true, ..Default::default() };
    // local
    let (reader, _) = l1::local_reader(archive.clone(), c.reads.clone());
    let rep = crate::util::block_on(l1::clone_mirror(reader, &opts));
    rep.result.clone().map_err(|x| format!("clone (local) of a conforming archive failed: {} (stage {})", x, rep.stage))?;
    if rep.output.as_ref().unwrap().data != **source {
        return Err(crate::util::describe_diff("clone (local): output differs from source", &rep.output.unwrap().data, &source));
    }
    // http
    if c.http {
        let srv = crate::http::Server::start(archive.clone(), http_script(c));
        let url: reqwest::Url = srv.url().parse().unwrap();
        let rep = crate::util::block_on(l1::clone_mirror(bitar::archive_reader::HttpReader::from_url(url), &opts));
        rep.result.clone().map_err(|x| format!("clone (http) of a conforming archive failed: {} (stage {})", x, rep.stage))?;
        if rep.output.as_ref().unwrap().data != **source {
            return Err(crate::util::describe_diff("clone (http): output differs from source", &rep.output.unwrap().data, &source));
        }
        rec.class("http");
        rec.class_if(c.http_pieces > 0, "http_body_in_paced_pieces");
    }
    rec.level = Some("L1");
    // real CLI
    if c.l2 {
        let dir = worker_dir("C17");
        clean_dir(&dir);
        l2::write_file(&dir.join("a.cba"), &e.bytes);
        let r = (|| -> Result<(), String> {
            let info = l2::run_bita(&dir, &l2::RunSpec { args: vec!["info".into(), "a.cba".into()], ..Default::default() });
            if !info.ok() {
                return Err(format!("bita info failed on a conforming archive: {}", info.describe()));
            }
            let out = String::from_utf8_lossy(&info.stdout).to_string();
            let want = format!("Chunks in source: {} (unique: {})", e.dict.rebuild_order.len(), e.dict.chunk_descriptors.len());
            if !out.contains(&want) || !out.contains(&hex::encode(&e.dict.source_checksum)) {
                return Err(format!("bita info does not report {:?} / the source checksum", want));
            }
            let srv = if c.http { Some(crate::http::Server::start(archive.clone(), http_script(c))) } else { None };
            let arch = srv.as_ref().map(|s| s.url()).unwrap_or_else(|| "a.cba".into());
            let mut args = vec!["--verify-output".to_string()];
            if let Some(s) = &seed {
                l2::write_file(&dir.join("seed.bin"), s);
                args.push("--seed".into());
                args.push("seed.bin".into());
            }
            let (run, outb) = crate::scen::clone_cli(&dir, &arch, "o.out", &args, None, None, false, &[]);
            drop(srv);
            if !run.ok() {
                return Err(format!("bita clone failed on a conforming archive: {}", run.describe()));
            }
            if outb.as_deref() != Some(&source[..]) {
                return Err("bita clone: output differs from source".into());
            }
            Ok(())
        })();
        clean_dir(&dir);
        r?;
        rec.level = Some("L2");
    }
    // classification: layout dimensions that differ from what bita's writer emits
    let s = &c.spec;
    let mut dims = 0;
    let mut dim = |cond: bool, name: &str, rec: &mut CaseRec| {
        if cond {
            dims += 1;
            rec.class(name);
        }
    };
    dim(s.legacy_magic, "legacy_magic", rec);
    dim(s.slack > 0, "slack_before_chunk_data", rec);
    let permuted = e.stored.windows(2).any(|w| w[1].0 < w[0].0);
    dim(permuted, "stored_order_not_dictionary_order", rec);
    let descending = e.stored.len() >= 2 && e.stored.windows(2).all(|w| w[1].0 < w[0].0);
    dim(descending, "stored_order_descending", rec);
    dim(s.recorded_level.is_some() && c.cfg.comp != Comp::None, "recorded_compression_level_not_the_writers", rec);
    // the descriptor table is not in order of first occurrence in the source (first uses of the table entries not ascending)
    let mut seen: Vec<u32> = vec![];
    for r in &e.dict.rebuild_order {
        if !seen.contains(r) {
            seen.push(*r);
        }
    }
    dim(seen.windows(2).any(|w| w[1] < w[0]), "descriptor_table_not_in_first_occurrence_order", rec);
    let gaps = {
        let mut v: Vec<(u64, usize)> = e.stored.clone();
        v.sort();
        v.windows(2).any(|w| w[0].0 + (w[0].1 as u64) < w[1].0) || v.first().map(|f| f.0 > e.chunk_data_offset).unwrap_or(false)
    };
    dim(gaps, "gaps_between_stored_chunks", rec);
    dim(!s.unknowns.dict.is_empty() || !s.unknowns.descriptor.is_empty() || !s.unknowns.params.is_empty() || !s.unknowns.compression.is_empty(), "unknown_fields", rec);
    dim(s.opts.explicit_zeros, "explicit_zero_fields", rec);
    dim(s.opts.unpacked_rebuild && !e.dict.rebuild_order.is_empty(), "unpacked_rebuild_order", rec);
    dim(e.compressed_larger > 0, "compressed_larger_than_source", rec);
    dim(s.storage.iter().any(|m| m % 3 == 1) && c.cfg.comp != Comp::None && e.raw_under_compression > 0, "raw_by_choice", rec);
    dim(s.trailing > 0, "trailing_bytes", rec);
    dim(e.dict.chunk_descriptors.is_empty(), "zero_chunks", rec);
    dim(!s.metadata.is_empty(), "metadata", rec);
    dim(c.cfg.hash_len < 64, "truncated_hash", rec);
    rec.class_if(seed.is_some(), "with_seed");
    rec.nontrivial = dims > 0;
    Ok(())
}

fn unknown_strategy(avoid: &'static [u32]) -> impl Strategy<Value = Vec<(u32, u8, Vec<u8>)>> {
    prop::collection::vec(
        (prop_oneof![2u32..=30, 30u32..=2000, Just(536_870_911u32)], prop_oneof![Just(0u8), Just(1u8), Just(2u8), Just(5u8)], prop::collection::vec(any::<u8>(), 0..12)).prop_filter_map("known field number", move |(f, w, p)| {
            if avoid.contains(&f) || (19000..=19999).contains(&f) {
                None
            } else {
                Some((f, w, p))
            }
        }),
        0..3,
    )
}

fn spec_strategy() -> impl Strategy<Value = EncSpec> {
    (
        (any::<bool>(), prop_oneof![2 => Just(0u16), 1 => 1u16..=64], prop_oneof![1 => Just(vec![]), 2 => prop::collection::vec(any::<u16>(), 1..8), 1 => Just(vec![9, 8, 7, 6, 5, 4, 3, 2, 1, 0])], prop_oneof![2 => Just(vec![]), 1 => prop::collection::vec(0u8..20, 1..5)]),
        prop::collection::vec(0u8..3, 0..5),
        (unknown_strategy(&[1, 2, 3, 4, 5, 6, 7, 8]), unknown_strategy(&[1, 3, 4, 5]), unknown_strategy(&[1, 2, 3, 4, 5, 6]), unknown_strategy(&[1, 2, 3])),
        (any::<bool>(), any::<bool>()),
        prop_oneof![2 => Just(BTreeMap::new()), 1 => prop::collection::btree_map(prop_oneof![3 => "[a-z]{0,6}".boxed(), 1 => ("[a-z]{0,70}", "[éß✓ж𝄞]{1,3}", "[a-z]{0,8}").prop_map(|(a, b, c)| format!("{}{}{}", a, b, c)).boxed()], prop::collection::vec(any::<u8>(), 0..20), 1..3)],
        prop_oneof![Just("0.13.0".to_string()), Just(String::new()), Just("9.99.9-other-tool".to_string())],
        prop_oneof![3 => Just(0u8), 1 => 1u8..50],
        prop_oneof![3 => Just(vec![]), 1 => prop::collection::vec(any::<u16>(), 1..8), 1 => Just(vec![9u16, 8, 7, 6, 5, 4, 3, 2, 1, 0])],
        prop_oneof![4 => Just(None), 1 => Just(Some(0u32)), 1 => prop_oneof![Just(10u32), Just(12), Just(23), Just(100), Just(u32::MAX)].prop_map(Some), 1 => (0u32..30).prop_map(Some)],
    )
        .prop_map(|((legacy_magic, slack, order_keys, gaps), storage, (ud, udesc, up, uc), (explicit_zeros, unpacked_rebuild), metadata, version, trailing, desc_keys, recorded_level)| EncSpec {
            legacy_magic,
            slack,
            order_keys,
            gaps,
            storage,
            unknowns: fmt::Unknowns { dict: ud, descriptor: udesc, params: up, compression: uc },
            opts: fmt::EncodeOpts { explicit_zeros, unpacked_rebuild },
            metadata,
            version,
            trailing,
            desc_keys,
            recorded_level,
        })
}

pub fn case_strategy() -> impl Strategy<Value = Case> {
    (
        prop_oneof![5 => source_strategy(5, 1200), 1 => zero_heavy_strategy(4, 200), 1 => Just(vec![])],
        arch_cfg_strategy(4, true),
        spec_strategy(),
        prop_oneof![2 => Just(None), 1 => related_strategy(300).prop_map(Some)],
        prop::bool::weighted(0.25),
        prop::bool::weighted(0.06),
        (prop_oneof![3 => Just(ReadScript::full()), 1 => read_script_strategy()], prop_oneof![2 => Just(0u16), 2 => 1u16..=16, 1 => 17u16..=300]),
    )
        .prop_map(|(source, cfg, spec, seed, http, l2, (reads, http_pieces))| Case { source, cfg, spec, seed, http, l2, reads, http_pieces })
}

impl Prop for C17 {
    fn id(&self) -> &'static str {
        "C17"
    }
    fn meta(&self, _tier: Tier) -> Meta {
        Meta {
            rule: "cases = (source, valid chunker config of any of the three algorithms, hash length 4..64, codec) encoded by the harness's own encoder (R2 + R1 + own compressors) with a generated layout: current / legacy magic, chunk-data offset = header end + 0..64 bytes of slack, stored chunks in permuted / descending order with 0..19 bytes of padding between them, trailing bytes, unknown protobuf fields (new numbers, wire types 0/1/2/5) at every message level, explicit zero fields, unpacked rebuild order, per-chunk raw vs compressed (never compressed with stored size == source size; compressed-larger-than-source allowed), metadata, foreign version strings, zero chunks. Oracle (round trip through an independent encoder): try_init succeeds, every Archive accessor equals the encoder's input, the clone (library mirror local and over HTTP, with and without a seed, --verify-output on; 6% through the real `bita info` + `bita clone`) yields exactly the source. Non-trivial = the encoding differs from bita's writer in at least one layout dimension (each dimension is counted in 'classes'); distinct by Blake2 of the canonical case. Over HTTP the response bodies arrive in one piece or in paced pieces of 1-300 bytes (frame boundaries at chunk ends and inside padding).".into(),
            assumptions: vec!["conformance is defined by header.rs' layout table and chunk_dictionary.proto as implemented by R2".into(), "truncated-hash collisions between different chunk contents are discarded exactly (collision guard)".into()],
            ..Meta::default()
        }
    }
    fn run_worker(&self, cx: &mut WorkerCtx) {
        let t = cx.tier;
        cx.run_prop("enc", t.pick(24_000, 500_000), case_strategy(), run_case);
        let _ = std::fs::remove_dir_all(worker_dir("C17"));
    }
    fn replay(&self, _cx: &mut WorkerCtx, _variant: &str, case: &Value) -> Result<(), String> {
        let mut rec = CaseRec::default();
        run_case(&serde_json::from_value(case.clone()).map_err(|e| e.to_string())?, &mut rec)
    }
}
