//! C04 — corrupted or tampered data never yields a successful wrong clone.
use crate::engine::*;
use crate::gen::*;
use crate::http::{self, Action, Body, Script, When};
use crate::iod::ReadRec;
use crate::l1::{self, CloneOpts};
use crate::l2;
use crate::props::c01::{clean_dir, worker_dir};
use crate::refs::format as fmt;
use crate::scen::*;
use proptest::prelude::*;
use serde::{Deserialize, Serialize};
use serde_json::Value;
use std::collections::BTreeMap;
use std::sync::Arc;

pub struct C04;

#[derive(Clone, Debug, Serialize, Deserialize)]
pub struct Base {
    pub source: SourceSpec,
    pub cfg: ArchCfg,
    pub seed: Option<Related>,
    pub cli_writer: bool,
}

#[derive(Clone, Debug, Serialize, Deserialize, PartialEq)]
pub enum Corruption {
    None,
    Flip { bit: u32 },
    Trunc { len: u32 },
    Overwrite { at: u16, data: Vec<u8> },
    /// swap the stored payloads of two descriptors (only when both have the same stored size, else overwrite a with b's prefix)
    Swap { a: u16, b: u16 },
    Trailing { n: u16 },
    DictSize { value: u64 },
}

#[derive(Clone, Debug, Serialize, Deserialize, PartialEq)]
pub enum Flag {
    None,
    VerifyHeaderRight,
    VerifyHeaderWrong(u32),
    VerifyHeaderBitOff(u16),
    VerifyOutput,
    /// a WRONG pin written with upper-case hex letters: the archive's checksum in hex with some of its digits 1..6 replaced
    /// by the letters A..F (another value); for odd selectors the remaining letters are in mixed case too. Decided by the CLI's text-to-bytes step,
    /// so these cases always go through the real CLI.
    VerifyHeaderUpperCaseWrong(u16),
}

/// the pin as typed on the command line
fn pin_text(b: &Built, f: &Flag) -> Option<String> {
    match f {
        Flag::VerifyHeaderUpperCaseWrong(sel) => {
            let real = hex::encode(&b.header.checksum);
            let mut r = SplitMix(*sel as u64 ^ 0xCA5E);
            let mut changed = false;
            let mut out: String = real
                .chars()
                .map(|ch| match ch {
                    '1'..='6' if r.below(3) == 0 => {
                        changed = true;
                        (b'A' + (ch as u8 - b'1')) as char
                    }
                    'a'..='f' if *sel % 2 == 1 && r.below(2) == 0 => ch.to_ascii_uppercase(),
                    _ => ch,
                })
                .collect();
            if !changed {
                // no digit 1..6 was picked: make it wrong in the plainest way
                let first = if out.starts_with('0') { "F" } else { "0" };
                out.replace_range(0..1, first);
            }
            Some(out)
        }
        _ => expected_header_arg(b, f).map(hex::encode),
    }
}

#[derive(Clone, Debug, Serialize, Deserialize, PartialEq)]
pub enum Serve {
    /// local file
    Local,
    /// HTTP, honest server
    Http,
    /// HTTP, the n-th data request answered with: 0 wrong bytes, 1 error page 404 of the requested length, 2 error page 500,
    /// 3 short body, 4 empty body; header requests honest unless `header` is set
    HttpBad { nth: u8, kind: u8, header: bool },
}

#[derive(Clone, Debug, Serialize, Deserialize)]
pub struct Case {
    pub base: Base,
    pub corr: Corruption,
    pub flag: Flag,
    pub serve: Serve,
    pub l2: bool,
}

pub struct Built {
    pub source: Arc<Vec<u8>>,
    pub archive: Vec<u8>,
    pub header: fmt::Header,
    pub seed: Option<Arc<Vec<u8>>>,
    /// absolute stored ranges the clean clone (with the seed) fetches
    pub fetched: Vec<(u64, usize)>,
}

pub fn build(b: &Base) -> Result<Built, String> {
    let source = Arc::new(expand(&b.source));
    let archive = crate::util::block_on(l1::compress_lib(source.clone(), &b.cfg, ReadScript::full(), &BTreeMap::new()))?;
    let header = fmt::decode_header(&archive).map_err(|e| format!("harness: {}", e))?;
    let seed = b.seed.as_ref().map(|r| Arc::new(related_bytes(&source, r)));
    // clean run: which ranges are fetched, and does it work at all
    let (reader, log) = l1::local_reader(Arc::new(archive.clone()), ReadScript::full());
    let opts = CloneOpts { seeds: seed.iter().map(|s| (s.clone(), ReadScript::full())).collect(), buffers: 2, ..Default::default() };
    let rep = crate::util::block_on(l1::clone_mirror(reader, &opts));
    rep.result.clone().map_err(|e| format!("harness: clean clone failed: {}", e))?;
    if rep.output.as_ref().unwrap().data != **source {
        return Err("harness: clean clone produced a wrong output (C01/C02 territory)".into());
    }
    let mut fetched = vec![];
    for r in log.lock().unwrap().iter() {
        if let ReadRec::Chunks(v) = r {
            fetched.extend(v.iter().cloned());
        }
    }
    Ok(Built { source, archive, header, seed, fetched })
}

pub fn corrupt(b: &Built, c: &Corruption) -> Vec<u8> {
    let mut a = b.archive.clone();
    match c {
        Corruption::None => {}
        Corruption::Flip { bit } => {
            let i = (*bit / 8) as usize;
            if i < a.len() {
                a[i] ^= 1 << (bit % 8);
            }
        }
        Corruption::Trunc { len } => a.truncate(*len as usize),
        Corruption::Overwrite { at, data } => {
            let p = idx(*at, a.len());
            for (k, d) in data.iter().enumerate() {
                if p + k < a.len() {
                    a[p + k] = *d;
                }
            }
        }
        Corruption::Swap { a: x, b: y } => {
            let d = &b.header.dictionary.chunk_descriptors;
            if d.len() >= 2 {
                let (i, j) = (idx(*x, d.len()), idx(*y, d.len()));
                let off = b.header.chunk_data_offset as usize;
                let (ri, rj) = ((off + d[i].archive_offset as usize, d[i].archive_size as usize), (off + d[j].archive_offset as usize, d[j].archive_size as usize));
                let pi = b.archive[ri.0..ri.0 + ri.1].to_vec();
                let pj = b.archive[rj.0..rj.0 + rj.1].to_vec();
                let n = pi.len().min(pj.len());
                a[ri.0..ri.0 + n].copy_from_slice(&pj[..n]);
                a[rj.0..rj.0 + n].copy_from_slice(&pi[..n]);
            }
        }
        Corruption::Trailing { n } => a.extend(std::iter::repeat(0xD7u8).take(*n as usize)),
        Corruption::DictSize { value } => {
            if a.len() >= 14 {
                a[6..14].copy_from_slice(&value.to_le_bytes());
            }
        }
    }
    a
}

fn first_changed(a: &[u8], b: &[u8]) -> Option<usize> {
    crate::util::first_diff(a, b)
}

fn expected_header_arg(b: &Built, f: &Flag) -> Option<Vec<u8>> {
    match f {
        Flag::VerifyHeaderRight => Some(b.header.checksum.clone()),
        Flag::VerifyHeaderWrong(s) => {
            let mut v = Vec::new();
            SplitMix(*s as u64).fill(&mut v, 64);
            if v == b.header.checksum {
                v[0] ^= 1;
            }
            Some(v)
        }
        Flag::VerifyHeaderUpperCaseWrong(_) => pin_text(b, f).and_then(|t| hex::decode(t).ok()),
        Flag::VerifyHeaderBitOff(bit) => {
            let mut v = b.header.checksum.clone();
            let bit = *bit as usize % 512;
            v[bit / 8] ^= 1 << (bit % 8);
            Some(v)
        }
        _ => None,
    }
}

/// touches the dictionary-size field with a value that makes today's reader ask for a huge buffer (S1): run out of process
fn risky(b: &Built, mutated: &[u8]) -> bool {
    if mutated.len() < 14 {
        return false;
    }
    let v = u64::from_le_bytes(mutated[6..14].try_into().unwrap());
    v != b.header.dictionary_size && v > (1 << 26)
}

/// kind 5: the server sends a few body bytes, then stalls with the connection open (the CLI is then run with
/// `--http-timeout 1`; the library mirror has no timeout, so there the stall is short and ends in an early close)
fn stalls(s: &Serve) -> bool {
    matches!(s, Serve::HttpBad { kind, header: false, .. } if kind % 6 == 5)
}

fn serve_script(s: &Serve, header_len: u64, l2: bool) -> Script {
    match s {
        Serve::HttpBad { nth, kind, header } => {
            let act = match kind % 6 {
                5 if !*header => Action { cut_after: Some(2 + *nth as usize * 5), stall_ms: if l2 { 3500 } else { 150 }, ..Default::default() },
                0 => Action { body: Body::Wrong, ..Default::default() },
                1 => Action { status: 404, body: Body::Page, ..Default::default() },
                2 => Action { status: 500, body: Body::Page, ..Default::default() },
                3 => Action { body: Body::Short(3), ..Default::default() },
                _ => Action { body: Body::Empty, ..Default::default() },
            };
            let when = if *header { When::Nth(*nth as usize % 2) } else { When::NthData(*nth as usize) };
            Script { rules: vec![(when, act)], data_from: header_len, max_requests: 0 }
        }
        _ => Script::default(),
    }
}

pub fn eval(b: &Built, c: &Case, rec: &mut CaseRec) -> Result<(), String> {
    let mutated = corrupt(b, &c.corr);
    let changed_at = first_changed(&mutated, &b.archive);
    let header_len = b.header.header_len;
    let header_changed = {
        let n = header_len.min(mutated.len());
        mutated.len() < header_len || mutated[..n] != b.archive[..n]
    };
    let exp = expected_header_arg(b, &c.flag);
    let server_bad = matches!(c.serve, Serve::HttpBad { .. });
    let use_l2 = c.l2 || risky(b, &mutated) || matches!(c.flag, Flag::VerifyHeaderUpperCaseWrong(_));
    // ---- run
    let (success, out, stage): (bool, Option<Vec<u8>>, String) = if use_l2 {
        let dir = worker_dir("C04");
        clean_dir(&dir);
        l2::write_file(&dir.join("a.cba"), &mutated);
        let mut args: Vec<String> = vec![];
        if let Some(s) = &b.seed {
            l2::write_file(&dir.join("seed.bin"), s);
            args.push("--seed".into());
            args.push("seed.bin".into());
        }
        if let Some(t) = pin_text(b, &c.flag) {
            args.push("--verify-header".into());
            args.push(t);
        }
        if c.flag == Flag::VerifyOutput {
            args.push("--verify-output".into());
        }
        if stalls(&c.serve) {
            args.push("--http-timeout".into());
            args.push("1".into());
        }
        let srv = if c.serve != Serve::Local { Some(http::Server::start(Arc::new(mutated.clone()), serve_script(&c.serve, header_len as u64, true))) } else { None };
        let arch = srv.as_ref().map(|s| s.url()).unwrap_or_else(|| "a.cba".into());
        let (r, out) = clone_cli(&dir, &arch, "o.out", &args, None, None, false, &[]);
        drop(srv);
        clean_dir(&dir);
        if r.timed_out {
            return Err(format!("[timeout] bita clone on a corrupted archive: {}", r.describe()));
        }
        rec.level = Some("L2");
        (r.ok(), out, String::from_utf8_lossy(&r.stderr).chars().take(200).collect())
    } else {
        let opts = CloneOpts {
            seeds: b.seed.iter().map(|s| (s.clone(), ReadScript::full())).collect(),
            buffers: 2,
            verify_header: exp.clone(),
            verify_output: c.flag == Flag::VerifyOutput,
            ..Default::default()
        };
        let rep = if c.serve == Serve::Local {
            let (reader, _) = l1::local_reader(Arc::new(mutated.clone()), ReadScript::full());
            crate::util::block_on(l1::clone_mirror(reader, &opts))
        } else {
            let srv = http::Server::start(Arc::new(mutated.clone()), serve_script(&c.serve, header_len as u64, false));
            let url: reqwest::Url = srv.url().parse().unwrap();
            let reader = bitar::archive_reader::HttpReader::from_url(url);
            crate::util::block_on(l1::clone_mirror(reader, &opts))
        };
        rec.level = Some("L1");
        (rep.result.is_ok(), rep.output.map(|o| o.data), format!("{}: {:?}", rep.stage, rep.result.err()))
    };
    // ---- judge
    if success {
        let out = out.ok_or("clone reported success but there is no output")?;
        if out != **b.source {
            return Err(format!("successful wrong clone: {} under {:?} / {:?} / {:?}", crate::util::describe_diff("output differs from source", &out, &b.source), c.corr, c.flag, c.serve));
        }
        if header_changed {
            return Err(format!("header: a change at offset {:?} < header length {} was not rejected when the archive was opened ({:?})", changed_at, header_len, c.corr));
        }
        match c.flag {
            Flag::VerifyHeaderWrong(_) | Flag::VerifyHeaderBitOff(_) | Flag::VerifyHeaderUpperCaseWrong(_) => {
                return Err(format!("verify-header: clone proceeded although the expected checsum ({:?}) is not the archive's header checksum", c.flag));
            }
            _ => {}
        }
    } else {
        if header_changed && !use_l2 && !stage.starts_with("open") {
            return Err(format!("header: change at offset {:?} inside the header was not rejected at open but later ({})", changed_at, stage));
        }
        // an intact archive from an honest source with the right expectations must clone
        if c.corr == Corruption::None && !server_bad && !matches!(c.flag, Flag::VerifyHeaderWrong(_) | Flag::VerifyHeaderBitOff(_) | Flag::VerifyHeaderUpperCaseWrong(_)) {
            return Err(format!("intact archive with {:?} failed to clone: {}", c.flag, stage));
        }
    }
    // classification
    let in_fetched = changed_at.map(|p| b.fetched.iter().any(|(o, n)| (p as u64) >= *o && (p as u64) < *o + *n as u64)).unwrap_or(false);
    rec.nontrivial = header_changed || in_fetched || server_bad || matches!(c.flag, Flag::VerifyHeaderWrong(_) | Flag::VerifyHeaderBitOff(_) | Flag::VerifyHeaderUpperCaseWrong(_));
    rec.class_if(header_changed, "header_altered");
    rec.class_if(in_fetched, "fetched_chunk_data_altered");
    rec.class_if(changed_at.is_some() && !header_changed && !in_fetched, "unfetched_or_padding_altered");
    rec.class_if(success, "clone_succeeded_with_correct_output");
    rec.class_if(!success, "clone_failed");
    rec.class_if(b.seed.is_some(), "with_seed");
    rec.class_if(use_l2 && !c.l2, "dict_size_field_via_cli");
    rec.class(match &c.flag {
        Flag::None => "flag_none",
        Flag::VerifyHeaderRight => "verify_header_right",
        Flag::VerifyHeaderWrong(_) => "verify_header_wrong",
        Flag::VerifyHeaderBitOff(_) => "verify_header_bit_off",
        Flag::VerifyHeaderUpperCaseWrong(_) => "verify_header_wrong_pin_in_upper_case_hex",
        Flag::VerifyOutput => "verify_output",
    });
    rec.class(match &c.serve {
        Serve::Local => "local",
        Serve::Http => "http_honest",
        Serve::HttpBad { .. } if stalls(&c.serve) => "http_server_stalls_mid_body",
        Serve::HttpBad { .. } => "http_misbehaving",
    });
    rec.class(match &c.corr {
        Corruption::None => "intact",
        Corruption::Flip { .. } => "bit_flip",
        Corruption::Trunc { .. } => "truncation",
        Corruption::Overwrite { .. } => "overwrite",
        Corruption::Swap { .. } => "payload_swap",
        Corruption::Trailing { .. } => "trailing_garbage",
        Corruption::DictSize { .. } => "dict_size_edit",
    });
    Ok(())
}

fn base_strategy(max_source: u32) -> impl Strategy<Value = Base> {
    (
        prop_oneof![
            3 => prop::collection::vec(
                prop_oneof![
                    (1u32..=max_source, any::<u32>()).prop_map(|(n, seed)| Seg::Random { n, seed }),
                    (1u32..=max_source, any::<u32>()).prop_map(|(n, seed)| Seg::Text { n, seed }),
                    (1u32..=max_source).prop_map(|n| Seg::Const { b: 0, n }),
                ],
                1..3
            ),
            1 => source_strategy(3, max_source),
        ],
        arch_cfg_strategy(8, true),
        prop_oneof![2 => Just(None), 1 => related_strategy(100).prop_map(Some)],
        any::<bool>(),
    )
        .prop_map(|(source, cfg, seed, cli_writer)| Base { source, cfg, seed, cli_writer })
}

fn flag_strategy() -> impl Strategy<Value = Flag> {
    prop_oneof![
        12 => Just(Flag::None),
        3 => Just(Flag::VerifyHeaderRight),
        3 => any::<u32>().prop_map(Flag::VerifyHeaderWrong),
        3 => (0u16..512).prop_map(Flag::VerifyHeaderBitOff),
        1 => any::<u16>().prop_map(Flag::VerifyHeaderUpperCaseWrong),
        6 => Just(Flag::VerifyOutput),
    ]
}
fn corruption_strategy() -> impl Strategy<Value = Corruption> {
    prop_oneof![
        1 => Just(Corruption::None),
        4 => any::<u32>().prop_map(|bit| Corruption::Flip { bit }),
        2 => any::<u32>().prop_map(|len| Corruption::Trunc { len }),
        3 => (any::<u16>(), prop::collection::vec(any::<u8>(), 1..12)).prop_map(|(at, data)| Corruption::Overwrite { at, data }),
        2 => (any::<u16>(), any::<u16>()).prop_map(|(a, b)| Corruption::Swap { a, b }),
        1 => (1u16..100).prop_map(|n| Corruption::Trailing { n }),
        1 => prop_oneof![0u64..2000, any::<u64>(), (0u32..64).prop_map(|b| 1u64 << b)].prop_map(|value| Corruption::DictSize { value }),
    ]
}
fn serve_strategy() -> impl Strategy<Value = Serve> {
    prop_oneof![
        4 => Just(Serve::Local),
        1 => Just(Serve::Http),
        3 => (0u8..3, prop_oneof![20 => 0u8..5, 1 => Just(5u8)], prop::bool::weighted(0.2)).prop_map(|(nth, kind, header)| Serve::HttpBad { nth, kind, header }),
    ]
}
fn case_strategy() -> impl Strategy<Value = Case> {
    (base_strategy(400), corruption_strategy(), flag_strategy(), serve_strategy(), prop::bool::weighted(0.08)).prop_map(|(base, corr, flag, serve, l2)| Case { base, corr, flag, serve, l2 })
}

fn normalise(c: &mut Case, b: &Built) {
    // make generated positions land inside the archive (monotone maps, so shrinking still works)
    let bits = (b.archive.len() * 8) as u64;
    match &mut c.corr {
        Corruption::Flip { bit } => *bit = ((*bit as u64 * bits) >> 32) as u32,
        Corruption::Trunc { len } => *len = ((*len as u64 * b.archive.len() as u64) >> 32) as u32,
        _ => {}
    }
}

fn run_case(c: &Case, rec: &mut CaseRec) -> Result<(), String> {
    if !c.base.cfg.chunker.is_valid() {
        rec.excluded = Some("invalid_config".into());
        return Ok(());
    }
    let b = build(&c.base)?;
    let mut c = c.clone();
    normalise(&mut c, &b);
    eval(&b, &c, rec)
}

impl Prop for C04 {
    fn id(&self) -> &'static str {
        "C04"
    }
    fn meta(&self, _tier: Tier) -> Meta {
        Meta {
            level: "fault_enumeration",
            rule: "variant 'exh': for a pool of generated archives (hash length >= 8, all codecs, with and without a seed) EVERY single-bit flip and EVERY truncation length is applied and the archive cloned (library mirror; flips that make the dictionary-size field huge are run through the real CLI in its own process); 'rand': proptest over (archive, corruption in {bit flip, truncation, multi-byte overwrite, payload swap between two descriptors, trailing garbage, dictionary-size edit, none}, flag in {none, --verify-header right / wrong / one-bit-off full-length checksum / a wrong pin typed with upper-case hex letters (through the CLI), --verify-output}, transport in {local, honest HTTP, HTTP answering the n-th request with wrong bytes / 404 or 500 page of the requested length / short body / empty body / a few body bytes and then silence on an open connection (the CLI runs with --http-timeout 1)}), 8% through the real CLI (HTTP clones there get --http-retry-count 1..3 in 1 run of 4). Oracle: the clone fails, or its output equals the source; any change below the header length must be rejected at open; with an expected header checksum the clone proceeds iff it is the archive's. Non-trivial = the altered byte lies in the header or in the stored range of a chunk the clean clone fetches (measured with the recording reader), or the server misbehaves, or the expected checksum is wrong; distinct by Blake2 of the canonical case.".into(),
            assumptions: vec![
                "expected header checksums are full 64-byte values (prefix equality of abbreviated values is HashSum's documented equality and outside the domain)".into(),
                "hash collisions at >= 8 bytes are assumed not to occur".into(),
            ],
            announce: true,
            ..Meta::default()
        }
    }
    fn run_worker(&self, cx: &mut WorkerCtx) {
        let t = cx.tier;
        if std::env::var("VERIF_ONLY").map(|o| o.split(',').any(|v| v == "exh")).unwrap_or(true) {
            let pool = cx.sample_n("exh", &base_strategy(60), t.pick(48, 600));
            let mut count = 0u64;
            let mut index = 0u64;
            'outer: for base in &pool {
                if !base.cfg.chunker.is_valid() {
                    continue;
                }
                let Ok(b) = build(base) else { continue };
                if b.archive.len() > 700 {
                    continue;
                }
                let nbits = b.archive.len() as u32 * 8;
                let corrs = (0..nbits).map(|bit| Corruption::Flip { bit }).chain((0..b.archive.len() as u32).map(|len| Corruption::Trunc { len }));
                for corr in corrs {
                    index += 1;
                    if !cx.mine(index) {
                        continue;
                    }
                    count += 1;
                    let case = Case { base: base.clone(), corr, flag: Flag::None, serve: Serve::Local, l2: false };
                    let key = key_of(&case);
                    if !cx.eval_case("exh", &case, key, |rec| eval(&b, &case, rec)) && cx.stats.failures.len() >= 3 {
                        break 'outer;
                    }
                }
            }
            cx.set_exhaustive("every_bit_flip_and_truncation_length_of_pooled_archives", count);
        }
        cx.run_prop("rand", t.pick(40_000, 600_000), case_strategy(), run_case);
        let _ = std::fs::remove_dir_all(worker_dir("C04"));
    }
    fn replay(&self, _cx: &mut WorkerCtx, variant: &str, case: &Value) -> Result<(), String> {
        let mut rec = CaseRec::default();
        let c: Case = serde_json::from_value(case.clone()).map_err(|e| e.to_string())?;
        match variant {
            "exh" => {
                let b = build(&c.base)?;
                eval(&b, &c, &mut rec)
            }
            _ => run_case(&c, &mut rec),
        }
    }
}
