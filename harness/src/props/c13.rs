//! C13 — clone writes only source chunks at their offsets, once, skipping in-place ones.
use crate::engine::*;
use crate::props::c03::{run_layout, Layout};
use crate::scen::*;
use proptest::prelude::*;
use serde_json::Value;
use std::collections::HashSet;

pub struct C13;

pub fn scenario_case(s: &Scenario, rec: &mut CaseRec) -> Result<(), String> {
    scenario_case_with(s, vec![], rec)
}

/// A scenario with one I/O fault injected into the output (a failing or short write, a failing seek, a failing read of
/// the old output). A clone that fails is not C13's business; one that reports success must have obeyed the write rules.
fn faulted_case(c: &(Scenario, crate::iod::WriteFault), rec: &mut CaseRec) -> Result<(), String> {
    rec.class(match &c.1 {
        crate::iod::WriteFault::ReadFail { .. } => "fault_read_of_old_output_fails",
        crate::iod::WriteFault::SeekFail { .. } => "fault_seek_fails",
        crate::iod::WriteFault::Fail { .. } => "fault_write_fails",
        crate::iod::WriteFault::Short { .. } | crate::iod::WriteFault::Zero { .. } => "fault_short_write",
        _ => "fault_pending",
    });
    scenario_case_with(&c.0, vec![c.1.clone()], rec)
}

fn faulted_strategy() -> impl Strategy<Value = (Scenario, crate::iod::WriteFault)> {
    use crate::iod::{FaultKind, WriteFault};
    let k = || prop_oneof![4 => 0usize..5, 3 => 0usize..12, 1 => 0usize..40];
    let fault = prop_oneof![
        4 => k().prop_map(|k| WriteFault::ReadFail { k }),
        2 => k().prop_map(|k| WriteFault::SeekFail { k }),
        2 => k().prop_map(|k| WriteFault::Fail { k, kind: FaultKind::Eio }),
        1 => (k(), 1usize..8).prop_map(|(k, j)| WriteFault::Short { k, j }),
        1 => k().prop_map(|k| WriteFault::Pending { k }),
    ];
    (scenario_strategy(8, true, true), fault).prop_map(|(mut s, f)| {
        if s.prior.is_some() {
            s.inplace = true;
        }
        (s, f)
    })
}

fn scenario_case_with(s: &Scenario, faults: Vec<crate::iod::WriteFault>, rec: &mut CaseRec) -> Result<(), String> {
    if !s.cfg.chunker.is_valid() {
        rec.excluded = Some("invalid_config".into());
        return Ok(());
    }
    let mut e = expectations(s);
    normalise_block_dev(s, &mut e);
    if e.collision {
        rec.excluded = Some("collision_guard".into());
        return Ok(());
    }
    let faulted = !faults.is_empty();
    let o = evaluate_l1(s, &e, faults)?;
    rec.class_if(faulted && o.report.result.is_ok(), "clone_succeeded_despite_the_injected_fault_(or_the_fault_was_never_reached)");
    // whether the clone succeeds and what the output holds in the end is judged by C01 / C02 / C03; here only the writes
    if o.report.result.is_err() {
        rec.excluded = Some("clone_failed_(judged_by_C01_C02_C03_not_here)".into());
        return Ok(());
    }
    let out = o.report.output.as_ref().unwrap();
    check_write_log(&e, &out.writes)?;
    rec.class_if(check_final_output(s, &e, &out.data).is_err(), "output_differs_from_source_(recorded_only)");
    classify_scenario(rec, s, &e);
    rec.level = Some("L1");
    rec.nontrivial = !e.in_place_offsets.is_empty() && e.in_prior.len() > 0 && e.src_chunks.iter().any(|m| e.in_prior.contains(&m.key(e.hash_len)) && !e.in_place_offsets.contains(&m.off)) && !e.missing.is_empty();
    Ok(())
}

/// abstract layouts (shared with C03): every write is a target chunk at a target offset, once, never at an in-place location
pub fn layout_case(l: &Layout, rec: &mut CaseRec) -> Result<(), String> {
    // failures of the run itself (reorder error, chunks left over) and a wrong final content are C03's verdict
    let r = match run_layout(l, l.hash_len) {
        Ok(r) => r,
        Err(_) => {
            rec.excluded = Some("layout_run_failed_(judged_by_C03_not_here)".into());
            return Ok(());
        }
    };
    rec.class_if(r.output_error.is_some(), "output_differs_from_target_(recorded_only)");
    let mut seen: HashSet<u64> = HashSet::new();
    // target offsets
    let mut offs: Vec<(u64, usize)> = vec![];
    let mut o = 0u64;
    for &t in &l.target {
        let n = l.sizes[t as usize] as usize;
        offs.push((o, n));
        o += n as u64;
    }
    for w in &r.writes {
        let Some((_, n)) = offs.iter().find(|(o, _)| *o == w.off) else {
            return Err(format!("write log: write at {} which is not a target chunk offset", w.off));
        };
        if w.data.len() != *n || w.data[..] != r.target_bytes[w.off as usize..w.off as usize + n] {
            return Err(format!("write log: write at {} is not exactly the target chunk", w.off));
        }
        if !seen.insert(w.off) {
            return Err(format!("write log: location {} written more than once", w.off));
        }
        if r.in_place_offsets.contains(&w.off) {
            return Err(format!("write log: location {} already held the right chunk but was written", w.off));
        }
    }
    rec.nontrivial = r.in_place > 0 && r.copies > 0 && l.target.iter().any(|t| !l.prior.contains(t));
    rec.class_if(r.in_place > 0, "chunk_in_place");
    rec.class_if(r.copies > 0, "chunk_moved");
    rec.class_if(r.dup_dest, "duplicate_destination");
    rec.class_if(r.partially_in_place, "chunk_partially_in_place");
    rec.class_if(l.hash_len < 64, "truncated_hash");
    Ok(())
}

fn layout_strategy() -> impl Strategy<Value = Layout> {
    (3usize..=8).prop_flat_map(|k| {
        (
            prop::collection::vec(prop_oneof![1u32..=3, 1u32..=9], k),
            prop::collection::vec(0u8..k as u8, 1..24),
            prop::collection::vec((any::<u16>(), any::<u16>()), 0..6),
            prop::collection::vec((any::<u16>(), 0u8..k as u8), 0..4),
            crate::props::c03::layout_hash_len(),
        )
            .prop_map(|(sizes, prior, swaps, repl, hash_len)| {
                let mut target = prior.clone();
                for (a, b) in swaps {
                    let (i, j) = (crate::gen::idx(a, target.len()), crate::gen::idx(b, target.len()));
                    target.swap(i, j);
                }
                for (a, v) in repl {
                    let i = crate::gen::idx(a, target.len());
                    target[i] = v;
                }
                Layout { sizes, prior, target, hash_len }
            })
    })
}

impl Prop for C13 {
    fn id(&self) -> &'static str {
        "C13"
    }
    fn meta(&self, _tier: Tier) -> Meta {
        Meta {
            rule: "cases = clone scenarios of C02/C03 (seeds, prior output, --seed-output, block device) observed at the output's write interface: L1 = logical writes (seek + contiguous data) of the instrumented in-memory output; L2 = iohook write log of the real bita process on the output path. Oracle over the whole log: every write is exactly one source chunk (per the reference chunker R1) at one of its source offsets, no location twice, no write at a location where the scan of the prior output (R1 on the prior content) already found the right chunk, nothing at or beyond the source length. Variant 'layout': abstract chunk layouts through the real planner/executor. Variant 'bigmove': layouts with chunks of 1-3.2 MB moved by less than their own size. Variant 'faults': the L1 scenarios with one injected fault on the output (a read of the old output, a seek or a write fails with EIO; a short write; Pending): a clone that fails is outside C13, one that still reports success is held to the same write rules. Non-trivial = scenario with >=1 chunk already in place, >=1 moved and >=1 fetched chunk; distinct by Blake2 of the canonical case.".into(),
            assumptions: vec!["chunks above tokio's 2 MiB file buffer would be split into several write calls; logical writes coalesce contiguous calls after one seek".into()],
            ..Meta::default()
        }
    }
    fn run_worker(&self, cx: &mut WorkerCtx) {
        let t = cx.tier;
        cx.run_prop("l1", t.pick(24_000, 400_000), scenario_strategy(8, true, true), scenario_case);
        cx.run_prop("layout", t.pick(200_000, 3_000_000), layout_strategy(), layout_case);
        // chunks of 1-3 MB that move by less than their own size (the shapes of C03's 'bigmove'): a move must arrive as the
        // chunk's bytes whatever its size
        cx.run_prop("bigmove", t.pick(96, 2000), crate::props::c03::big_layout_strategy(), layout_case);
        cx.run_prop("faults", t.pick(16_000, 300_000), faulted_strategy(), faulted_case);
        crate::props::l2scen::run_l2_variant(cx, "C13", t.pick(2400, 30000), scenario_strategy(8, true, true).boxed(), |_s, e, rec| {
            rec.nontrivial = !e.in_place_offsets.is_empty() && e.src_chunks.iter().any(|m| e.in_prior.contains(&m.key(e.hash_len)) && !e.in_place_offsets.contains(&m.off)) && !e.missing.is_empty();
        });
    }
    fn replay(&self, _cx: &mut WorkerCtx, variant: &str, case: &Value) -> Result<(), String> {
        let mut rec = CaseRec::default();
        match variant {
            "l2" => crate::props::l2scen::replay_l2("C13", case, &mut rec),
            "faults" => faulted_case(&serde_json::from_value(case.clone()).map_err(|e| e.to_string())?, &mut rec),
            "layout" | "bigmove" => layout_case(&serde_json::from_value(case.clone()).map_err(|e| e.to_string())?, &mut rec),
            _ => scenario_case(&serde_json::from_value(case.clone()).map_err(|e| e.to_string())?, &mut rec),
        }
    }
}
