//! C06 — only chunks missing from seeds and prior output are fetched, each once.
use crate::engine::*;
use crate::scen::*;
use proptest::prelude::*;
use serde_json::Value;

pub struct C06;

pub fn scenario_case(s: &Scenario, rec: &mut CaseRec) -> Result<(), String> {
    if !s.cfg.chunker.is_valid() {
        rec.excluded = Some("invalid_config".into());
        return Ok(());
    }
    let mut e = expectations(s);
    normalise_block_dev(s, &mut e);
    if e.collision {
        rec.excluded = Some("collision_guard".into());
        return Ok(());
    }
    let o = evaluate_l1(s, &e, vec![])?;
    o.report.result.clone().map_err(|x| format!("clone failed: {} (stage {})", x, o.report.stage))?;
    check_read_log(&e, &o.header, &o.reads)?;
    let out = o.report.output.as_ref().unwrap();
    check_final_output(s, &e, &out.data)?;
    classify_scenario(rec, s, &e);
    rec.level = Some("L1");
    rec.nontrivial = !e.missing.is_empty() && e.missing.len() < e.src_keys.len();
    Ok(())
}

impl Prop for C06 {
    fn id(&self) -> &'static str {
        "C06"
    }
    fn meta(&self, _tier: Tier) -> Meta {
        Meta {
            rule: "cases = clone scenarios of C02/C03 x output kind {new file, existing regular file with --seed-output, block device (cfg(oll3_bita_verif) hook env; real loop device in the thorough tier when losetup works)} x {local archive, HTTP}. Expected fetch set from R3: source chunks minus the chunks the reference chunker R1 finds in seeds and prior output. Observed: L1 = read_at / read_chunks arguments at the ArchiveReader boundary; L2 local = iohook read log of the archive file; L2 HTTP = Range headers logged by the scripted server. Oracle: chunk-data reads are exactly the stored ranges (from the R2-decoded dictionary) of the missing chunks, each byte once, everything else read lies inside the header region. Non-trivial = 0 < |missing| < |unique source chunks|; distinct by Blake2 of the canonical case.".into(),
            assumptions: vec!["transfer retries are absent in this check (no faults injected)".into()],
            ..Meta::default()
        }
    }
    fn run_worker(&self, cx: &mut WorkerCtx) {
        let t = cx.tier;
        cx.run_prop("l1", t.pick(24_000, 400_000), scenario_strategy(8, true, true), scenario_case);
        crate::props::l2scen::run_l2_variant(cx, "C06", t.pick(2400, 30000), scenario_strategy(8, true, true).boxed(), |_s, e, rec| {
            rec.nontrivial = !e.missing.is_empty() && e.missing.len() < e.src_keys.len();
        });
    }
    fn replay(&self, _cx: &mut WorkerCtx, variant: &str, case: &Value) -> Result<(), String> {
        let mut rec = CaseRec::default();
        match variant {
            "l2" => crate::props::l2scen::replay_l2("C06", case, &mut rec),
            _ => scenario_case(&serde_json::from_value(case.clone()).map_err(|e| e.to_string())?, &mut rec),
        }
    }
}
