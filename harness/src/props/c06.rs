//! C06 — only chunks missing from seeds and prior output are fetched, each once.
use crate::engine::*;
use crate::scen::*;
use proptest::prelude::*;
use serde_json::Value;

pub struct C06;

pub fn scenario_case(s: &Scenario, rec: &mut CaseRec) -> Result<(), String> {
    if !s.cfg.chunker.is_valid() {
        rec.excluded = Some("invalid_config".into());
        return Ok(());
    }
    let mut e = expectations(s);
    normalise_block_dev(s, &mut e);
    if e.collision {
        rec.excluded = Some("collision_guard".into());
        return Ok(());
    }
    let o = evaluate_l1(s, &e, vec![])?;
    // whether the clone succeeds and what it writes is judged by C01 / C02 / C03; here only what was read
    if o.report.result.is_err() {
        rec.excluded = Some("clone_failed_(judged_by_C01_C02_C03_not_here)".into());
        return Ok(());
    }
    check_read_log(&e, &o.header, &o.reads)?;
    let out = o.report.output.as_ref().unwrap();
    rec.class_if(check_final_output(s, &e, &out.data).is_err(), "output_differs_from_source_(recorded_only)");
    classify_scenario(rec, s, &e);
    rec.level = Some("L1");
    rec.nontrivial = !e.missing.is_empty() && e.missing.len() < e.src_keys.len();
    Ok(())
}

/// F3's scenario on a REAL block device (loop device, production binary): the chunks the scan finds on the device
/// must not be fetched.
fn loop_case(c: &crate::props::l2scen::L2Scen, dev: &crate::props::c14::LoopDev, rec: &mut CaseRec) -> Result<(), String> {
    use crate::gen::*;
    let mut c = c.clone();
    c.http = false;
    c.verify_output = false;
    if !crate::l2::cli_expressible(&c.scen.cfg.chunker) {
        rec.excluded = Some("not_cli_expressible".into());
        return Ok(());
    }
    // device content = the scenario's prior output padded with random bytes to the device size
    let source = expand(&c.scen.source);
    let dev_len = dev.read().map(|d| d.len()).unwrap_or(0);
    if source.len() > dev_len {
        rec.excluded = Some("source_larger_than_device".into());
        return Ok(());
    }
    let mut content = c.scen.prior.as_ref().map(|r| related_bytes(&source, r)).unwrap_or_default();
    content.truncate(dev_len);
    let pad = dev_len - content.len();
    SplitMix(pad as u64 ^ 0xD0).fill(&mut content, pad);
    c.scen.prior = Some(Related::Unrelated(vec![Seg::Lit { bytes: content.clone() }]));
    c.scen.inplace = true;
    c.scen.block_dev = true;
    let e = expectations(&c.scen);
    if e.collision {
        rec.excluded = Some("collision_guard".into());
        return Ok(());
    }
    if !dev.write(&content) {
        return Err("harness: cannot write to the loop device".into());
    }
    let o = crate::props::l2scen::execute_on("C06", &c, &e, None, None, Some(&dev.dev))?;
    crate::props::c01::clean_dir(&crate::props::c01::worker_dir("C06"));
    if !o.run.ok() {
        rec.excluded = Some("clone_failed_(judged_by_C01_C02_C03_not_here)".into());
        return Ok(());
    }
    let out = o.output.as_ref().ok_or("cannot read the device back")?;
    rec.class_if(check_final_output(&c.scen, &e, out).is_err(), "output_differs_from_source_(recorded_only)");
    crate::props::l2scen::check_l2_reads(&e, &o, false)?;
    classify_scenario(rec, &c.scen, &e);
    rec.class("real_loop_device");
    rec.level = Some("L2");
    rec.nontrivial = !e.in_prior.is_empty();
    Ok(())
}

impl Prop for C06 {
    fn id(&self) -> &'static str {
        "C06"
    }
    fn meta(&self, _tier: Tier) -> Meta {
        Meta {
            rule: "cases = clone scenarios of C02/C03 x output kind {new file, existing regular file with --seed-output, block device (cfg(oll3_bita_verif) hook env; real loop device in the thorough tier when losetup works)} x {local archive, HTTP}. Expected fetch set from R3: source chunks minus the chunks the reference chunker R1 finds in seeds and prior output. Observed: L1 = read_at / read_chunks arguments at the ArchiveReader boundary; L2 local = iohook read log of the archive file; L2 HTTP = Range headers logged by the scripted server. Oracle: chunk-data reads are exactly the stored ranges (from the R2-decoded dictionary) of the missing chunks, each byte once, everything else read lies inside the header region. Non-trivial = 0 < |missing| < |unique source chunks|; distinct by Blake2 of the canonical case.".into(),
            assumptions: vec!["transfer retries are absent in this check (no faults injected)".into()],
            ..Meta::default()
        }
    }
    fn run_worker(&self, cx: &mut WorkerCtx) {
        let t = cx.tier;
        cx.run_prop("l1", t.pick(24_000, 400_000), scenario_strategy(8, true, true), scenario_case);
        crate::props::l2scen::run_l2_variant(cx, "C06", t.pick(2400, 30000), scenario_strategy(8, true, true).boxed(), |_s, e, rec| {
            rec.nontrivial = !e.missing.is_empty() && e.missing.len() < e.src_keys.len();
        });
        if cx.worker == 0 && std::env::var("VERIF_ONLY").map(|o| o.split(',').any(|v| v == "loopdev")).unwrap_or(true) {
            let dir = crate::props::c01::worker_dir("C06");
            let _ = std::fs::create_dir_all(&dir);
            crate::props::c14::LoopDev::detach_stale(&format!("{}/target/work/C06", crate::engine::verif_root()));
            match crate::props::c14::LoopDev::attach(&dir, "loop.img", 32 * 1024) {
                Some(dev) => {
                    let (w, nw) = (cx.worker, cx.nworkers);
                    cx.worker = 0;
                    cx.nworkers = 1;
                    cx.run_prop("loopdev", t.pick(64, 1200), crate::props::l2scen::l2scen_strategy(scenario_strategy(8, true, false).boxed()), |c, rec| loop_case(c, &dev, rec));
                    cx.worker = w;
                    cx.nworkers = nw;
                    cx.note("real loop device available: the 'loopdev' variant ran --seed-output clones onto /dev/loopN with the production binary");
                }
                None => cx.note("losetup could not attach a loop device: block devices were exercised through the cfg(oll3_bita_verif) hook only"),
            }
            let _ = std::fs::remove_dir_all(crate::props::c01::worker_dir("C06"));
        }
    }
    fn replay(&self, _cx: &mut WorkerCtx, variant: &str, case: &Value) -> Result<(), String> {
        let mut rec = CaseRec::default();
        match variant {
            "l2" => crate::props::l2scen::replay_l2("C06", case, &mut rec),
            "loopdev" => {
                let dir = crate::props::c01::worker_dir("C06");
                let Some(dev) = crate::props::c14::LoopDev::attach(&dir, "loop.img", 32 * 1024) else { return Err("[inconclusive] no loop device available".into()) };
                loop_case(&serde_json::from_value(case.clone()).map_err(|e| e.to_string())?, &dev, &mut rec)
            }
            _ => scenario_case(&serde_json::from_value(case.clone()).map_err(|e| e.to_string())?, &mut rec),
        }
    }
}
