//! C15 — untrusted archives / servers yield errors, never panics, aborts or unbounded work.
use crate::enc::{encode_archive, own_compress, EncSpec};
use crate::engine::*;
use crate::gen::*;
use crate::http::{self, Action, Body, Script, When};
use crate::iod::{MemOutput, ReadRec, RecordingReader};
use crate::l2;
use crate::props::c01::{clean_dir, worker_dir};
use crate::refs::format as fmt;
use bitar::archive_reader::{ArchiveReader, HttpReader, IoReader};
use bitar::{Archive, CloneOutput};
use futures_util::StreamExt;
use proptest::prelude::*;
use serde::{Deserialize, Serialize};
use serde_json::Value;
use std::sync::Arc;

pub struct C15;

#[derive(Clone, Debug, Serialize, Deserialize, PartialEq)]
pub enum Mutation {
    DictSizeField(u64),
    ChunkDataOffset(u64),
    RebuildIndex { at: u16, value: u32 },
    RebuildExtend { n: u8, value: u32 },
    RebuildTruncate { n: u8 },
    DescSourceSize { at: u16, value: u32 },
    DescArchiveSize { at: u16, value: u32 },
    DescArchiveOffset { at: u16, value: u64 },
    DescChecksumLen { at: u16, len: u8 },
    DescDuplicate { at: u16 },
    DescRemove { at: u16 },
    FilterBits(u32),
    MinChunk(u32),
    MaxChunk(u32),
    Window(u32),
    HashLen(u32),
    Algorithm(u32),
    CompressionType(u32),
    CompressionLevel(u32),
    NoParams,
    NoCompression,
    SourceTotalSize(u64),
    SourceChecksumLen(u8),
    /// replace the stored bytes of a descriptor by a stream that inflates to `mib` MiB while declaring the original size
    Bomb { at: u16, mib: u8 },
    /// garbage appended to / replacing the dictionary bytes (valid checksum)
    DictGarbage { seed: u32, replace: bool },
    /// a metadata entry whose key is `ascii` ASCII bytes, then `wide` characters of 2 / 3 / 4 UTF-8 bytes, then `tail`
    /// ASCII bytes (a legitimate dictionary: keys are arbitrary strings); value of `value_len` bytes
    MetadataKey { ascii: u8, wide: u8, width: u8, tail: u8, value_len: u16 },
}

#[derive(Clone, Debug, Serialize, Deserialize, PartialEq)]
pub enum Transport {
    Local,
    Http,
    /// HTTP: n-th request answered with kind: 0 extra bytes, 1 wrong status + page, 2 empty body, 3 short body, 4 wrong bytes
    HttpBad { nth: u8, kind: u8, k: u8 },
}

#[derive(Clone, Debug, Serialize, Deserialize)]
pub struct Case {
    pub source: SourceSpec,
    pub cfg: ArchCfg,
    pub muts: Vec<Mutation>,
    pub seed: Option<Related>,
    pub transport: Transport,
    pub l2: bool,
}

#[derive(Clone, Debug, Serialize, Deserialize)]
pub struct RawCase {
    pub base: Option<(SourceSpec, ArchCfg)>,
    /// raw bytes, or edits of the base archive
    pub bytes: Vec<u8>,
    pub flip: Option<u32>,
    pub trunc: Option<u32>,
    /// seed bytes scanned with the archive's own chunker (fuzz target)
    #[serde(default)]
    pub seed: Option<Vec<u8>>,
}

pub struct Mutated {
    pub bytes: Vec<u8>,
    pub declared_sum: u64,
    pub max_declared: u64,
    pub dict_size_field: u64,
    pub degenerate_chunker: bool,
}

fn interesting_u32() -> impl Strategy<Value = u32> {
    prop_oneof![
        Just(0u32), Just(1), Just(2), Just(7), Just(24), Just(30), Just(31), Just(32), Just(33), Just(63), Just(64), Just(65), Just(255), Just(65536), Just(1 << 20), Just(1 << 24),
        Just(1 << 26), Just((1 << 31) - 1), Just(1 << 31), Just(u32::MAX), any::<u32>(), 0u32..300
    ]
}
fn interesting_u64() -> impl Strategy<Value = u64> {
    prop_oneof![Just(0u64), Just(1), 0u64..2000, Just(1 << 31), Just(1 << 32), Just(1 << 40), Just(1 << 47), Just(1 << 62), Just(u64::MAX - 100), Just(u64::MAX - 71), Just(u64::MAX), any::<u64>(), (0u32..64).prop_map(|b| 1u64 << b)]
}
/// sizes that stay cheap to honour in process (declared chunk sizes are legitimate; honouring 4 GiB is just slow)
fn moderate_u32() -> impl Strategy<Value = u32> {
    prop_oneof![Just(0u32), Just(1), Just(2), 0u32..300, Just(65535), Just(65536), Just(1 << 20), Just(1 << 24)]
}

fn mutation_strategy() -> impl Strategy<Value = Mutation> {
    prop_oneof![
        2 => interesting_u64().prop_map(Mutation::DictSizeField),
        2 => interesting_u64().prop_map(Mutation::ChunkDataOffset),
        3 => (any::<u16>(), interesting_u32()).prop_map(|(at, value)| Mutation::RebuildIndex { at, value }),
        1 => (1u8..5, interesting_u32()).prop_map(|(n, value)| Mutation::RebuildExtend { n, value }),
        1 => (1u8..5).prop_map(|n| Mutation::RebuildTruncate { n }),
        3 => (any::<u16>(), moderate_u32()).prop_map(|(at, value)| Mutation::DescSourceSize { at, value }),
        3 => (any::<u16>(), moderate_u32()).prop_map(|(at, value)| Mutation::DescArchiveSize { at, value }),
        3 => (any::<u16>(), interesting_u64()).prop_map(|(at, value)| Mutation::DescArchiveOffset { at, value }),
        2 => (any::<u16>(), prop_oneof![Just(0u8), Just(1), Just(3), Just(4), Just(63), Just(64), Just(65), Just(200)]).prop_map(|(at, len)| Mutation::DescChecksumLen { at, len }),
        1 => any::<u16>().prop_map(|at| Mutation::DescDuplicate { at }),
        1 => any::<u16>().prop_map(|at| Mutation::DescRemove { at }),
        3 => interesting_u32().prop_map(Mutation::FilterBits),
        3 => interesting_u32().prop_map(Mutation::MinChunk),
        3 => interesting_u32().prop_map(Mutation::MaxChunk),
        3 => moderate_u32().prop_map(Mutation::Window),
        2 => interesting_u32().prop_map(Mutation::HashLen),
        2 => prop_oneof![0u32..4, Just(99u32), Just(u32::MAX)].prop_map(Mutation::Algorithm),
        2 => prop_oneof![0u32..5, Just(99u32), Just(u32::MAX)].prop_map(Mutation::CompressionType),
        1 => interesting_u32().prop_map(Mutation::CompressionLevel),
        1 => Just(Mutation::NoParams),
        1 => Just(Mutation::NoCompression),
        1 => interesting_u64().prop_map(Mutation::SourceTotalSize),
        1 => prop_oneof![Just(0u8), Just(1), Just(63), Just(65)].prop_map(Mutation::SourceChecksumLen),
        1 => (any::<u16>(), prop_oneof![Just(1u8), Just(4), Just(16)]).prop_map(|(at, mib)| Mutation::Bomb { at, mib }),
        1 => (any::<u32>(), any::<bool>()).prop_map(|(seed, replace)| Mutation::DictGarbage { seed, replace }),
        2 => (prop_oneof![0u8..140, 28u8..36, 60u8..68], 1u8..4, 2u8..5, 0u8..20, prop_oneof![Just(0u16), 0u16..300, Just(5000u16)]).prop_map(|(ascii, wide, width, tail, value_len)| Mutation::MetadataKey { ascii, wide, width, tail, value_len }),
    ]
}

thread_local! {
    static BOMBS: std::cell::RefCell<std::collections::HashMap<(String, u8), Arc<Vec<u8>>>> = std::cell::RefCell::new(Default::default());
}
fn bomb(comp: Comp, mib: u8) -> Arc<Vec<u8>> {
    BOMBS.with(|b| {
        b.borrow_mut()
            .entry((format!("{:?}", comp), mib))
            .or_insert_with(|| {
                let zeros = vec![0u8; mib as usize * 1024 * 1024];
                let c = match comp {
                    Comp::Brotli(_) => Comp::Brotli(5),
                    Comp::Zstd(_) => Comp::Zstd(3),
                    Comp::Lzma(_) => Comp::Lzma(1),
                    Comp::None => Comp::None,
                };
                Arc::new(own_compress(c, &zeros))
            })
            .clone()
    })
}

pub fn build_mutated(source: &[u8], cfg: &ArchCfg, muts: &[Mutation]) -> Option<Mutated> {
    let e = encode_archive(source, cfg, &EncSpec { version: "0.13.0".into(), ..Default::default() });
    if e.truncated_collision {
        return None;
    }
    let mut d = e.dict.clone();
    let mut data = e.bytes[e.chunk_data_offset as usize..].to_vec();
    let mut dict_size_field: Option<u64> = None;
    let mut offset_field: Option<u64> = None;
    let mut garbage: Option<(u32, bool)> = None;
    for m in muts {
        let nd = d.chunk_descriptors.len();
        let nr = d.rebuild_order.len();
        match m {
            Mutation::DictSizeField(v) => dict_size_field = Some(*v),
            Mutation::ChunkDataOffset(v) => offset_field = Some(*v),
            Mutation::RebuildIndex { at, value } if nr > 0 => d.rebuild_order[idx(*at, nr)] = *value,
            Mutation::RebuildExtend { n, value } => d.rebuild_order.extend(std::iter::repeat(*value).take(*n as usize)),
            Mutation::RebuildTruncate { n } => {
                let k = nr.saturating_sub(*n as usize);
                d.rebuild_order.truncate(k)
            }
            Mutation::DescSourceSize { at, value } if nd > 0 => d.chunk_descriptors[idx(*at, nd)].source_size = *value,
            Mutation::DescArchiveSize { at, value } if nd > 0 => d.chunk_descriptors[idx(*at, nd)].archive_size = *value,
            Mutation::DescArchiveOffset { at, value } if nd > 0 => d.chunk_descriptors[idx(*at, nd)].archive_offset = *value,
            Mutation::DescChecksumLen { at, len } if nd > 0 => {
                let c = &mut d.chunk_descriptors[idx(*at, nd)].checksum;
                c.resize(*len as usize, 0x11);
            }
            Mutation::DescDuplicate { at } if nd > 0 => {
                let c = d.chunk_descriptors[idx(*at, nd)].clone();
                d.chunk_descriptors.push(c);
            }
            Mutation::DescRemove { at } if nd > 0 => {
                d.chunk_descriptors.remove(idx(*at, nd));
            }
            Mutation::FilterBits(v) => {
                if let Some(p) = &mut d.chunker_params {
                    p.chunk_filter_bits = *v
                }
            }
            Mutation::MinChunk(v) => {
                if let Some(p) = &mut d.chunker_params {
                    p.min_chunk_size = *v
                }
            }
            Mutation::MaxChunk(v) => {
                if let Some(p) = &mut d.chunker_params {
                    p.max_chunk_size = *v
                }
            }
            Mutation::Window(v) => {
                if let Some(p) = &mut d.chunker_params {
                    p.rolling_hash_window_size = *v
                }
            }
            Mutation::HashLen(v) => {
                if let Some(p) = &mut d.chunker_params {
                    p.chunk_hash_length = *v
                }
            }
            Mutation::Algorithm(v) => {
                if let Some(p) = &mut d.chunker_params {
                    p.chunking_algorithm = *v
                }
            }
            Mutation::CompressionType(v) => {
                if let Some(c) = &mut d.chunk_compression {
                    c.compression = *v
                }
            }
            Mutation::CompressionLevel(v) => {
                if let Some(c) = &mut d.chunk_compression {
                    c.compression_level = *v
                }
            }
            Mutation::NoParams => d.chunker_params = None,
            Mutation::NoCompression => d.chunk_compression = None,
            Mutation::SourceTotalSize(v) => d.source_total_size = *v,
            Mutation::SourceChecksumLen(l) => d.source_checksum.resize(*l as usize, 0x22),
            Mutation::MetadataKey { ascii, wide, width, tail, value_len } => {
                let ch = match width {
                    2 => 'é',
                    3 => '✓',
                    _ => '𝄞',
                };
                let mut k = "k".repeat(*ascii as usize);
                for _ in 0..*wide {
                    k.push(ch);
                }
                k.push_str(&"z".repeat(*tail as usize));
                d.metadata.insert(k, vec![0x6d; *value_len as usize]);
            }
            Mutation::Bomb { at, mib } if nd > 0 && cfg.comp != Comp::None => {
                let b = bomb(cfg.comp, *mib);
                let i = idx(*at, nd);
                d.chunk_descriptors[i].archive_offset = data.len() as u64;
                d.chunk_descriptors[i].archive_size = b.len() as u32;
                if d.chunk_descriptors[i].source_size as usize == b.len() {
                    d.chunk_descriptors[i].source_size += 1;
                }
                data.extend_from_slice(&b);
            }
            Mutation::DictGarbage { seed, replace } => garbage = Some((*seed, *replace)),
            _ => {}
        }
    }
    let mut dict_bytes = fmt::encode_dictionary(&d, &fmt::EncodeOpts::default(), &fmt::Unknowns::default());
    if let Some((seed, replace)) = garbage {
        let mut g = Vec::new();
        SplitMix(seed as u64).fill(&mut g, 5 + (seed % 60) as usize);
        if replace {
            dict_bytes = g;
        } else {
            dict_bytes.extend_from_slice(&g);
        }
    }
    let header_len = fmt::header_len_for(dict_bytes.len());
    let dsf = dict_size_field.unwrap_or(dict_bytes.len() as u64);
    let mut bytes = fmt::build_header_raw(false, dsf, &dict_bytes, offset_field.unwrap_or(header_len as u64));
    // when the size field lies, the checksum must sit where the reader will look for it: rebuild accordingly if it fits
    if dsf != dict_bytes.len() as u64 && dsf < (dict_bytes.len() + data.len() + 4096) as u64 {
        let mut full = Vec::new();
        full.extend_from_slice(fmt::MAGIC);
        full.extend_from_slice(&dsf.to_le_bytes());
        full.extend_from_slice(&dict_bytes);
        full.extend_from_slice(&data);
        full.resize((14 + dsf as usize + 8).max(full.len()), 0);
        let span = 14 + dsf as usize + 8;
        let sum = fmt::blake2b512(&full[..span]);
        let mut out = full[..span].to_vec();
        out.extend_from_slice(&sum);
        out.extend_from_slice(&data);
        bytes = out;
    } else {
        bytes.extend_from_slice(&data);
    }
    let declared_sum: u64 = d.chunk_descriptors.iter().map(|c| c.archive_size as u64 + c.source_size as u64).sum();
    let max_declared = d.chunk_descriptors.iter().map(|c| c.archive_size.max(c.source_size) as u64).max().unwrap_or(0);
    let degenerate_chunker = d.chunker_params.as_ref().map(|p| p.max_chunk_size == 0).unwrap_or(false);
    Some(Mutated { bytes, declared_sum, max_declared, dict_size_field: dsf, degenerate_chunker })
}

/// One step failure.
#[derive(Clone, Debug)]
pub struct StepFail {
    pub step: &'static str,
    pub fail: Fail,
}

fn step<T>(step: &'static str, fails: &mut Vec<StepFail>, f: impl FnOnce() -> Result<T, String>) -> Option<T> {
    match guarded(f) {
        Ok(v) => Some(v),
        Err(mut fl) => {
            fl.message = format!("step {}: {}", step, fl.message);
            fails.push(StepFail { step, fail: fl });
            None
        }
    }
}

/// The whole reader pipeline over one byte string presented as an archive. Clean `Err`s are fine; what is
/// collected are panics and the clock-free "unbounded" predicates.
pub fn pipeline<R>(reader: R, input_len: usize, declared_sum: u64, seed: Option<Arc<Vec<u8>>>, fails: &mut Vec<StepFail>, rec: &mut CaseRec)
where
    R: ArchiveReader + Send + 'static,
    R::Error: std::error::Error + Send + Sync + 'static,
{
    let (reader, log) = RecordingReader::new(reader);
    let Some(init) = step("try_init", fails, || Ok(crate::util::block_on(Archive::try_init(reader)))) else {
        check_requests(&log, input_len, declared_sum, fails);
        return;
    };
    check_requests(&log, input_len, declared_sum, fails);
    let mut archive = match init {
        Ok(a) => a,
        Err(_) => {
            rec.class("rejected_at_open");
            return;
        }
    };
    rec.class("opened");
    // accessors + what `bita info` computes from them
    step("accessors", fails, || {
        let _ = (archive.total_chunks(), archive.unique_chunks(), archive.compressed_size(), archive.chunk_data_offset(), archive.total_source_size());
        let _ = (archive.source_checksum().len(), archive.header_checksum().len(), archive.header_size(), archive.chunk_hash_length(), archive.chunk_compression(), archive.built_with_version().len());
        let _ = archive.metadata_iter().count();
        for cd in archive.chunk_descriptors() {
            let _ = cd.archive_end_offset();
        }
        Ok(())
    });
    step("print_chunker_config", fails, || {
        match archive.chunker_config() {
            bitar::chunker::Config::BuzHash(f) | bitar::chunker::Config::RollSum(f) => {
                let _ = f.filter_bits.mask();
                let _ = f.filter_bits.chunk_target_average();
            }
            bitar::chunker::Config::FixedSize(_) => {}
        }
        Ok(())
    });
    let index = step("build_source_index", fails, || Ok(archive.build_source_index()));
    // seed scan with the archive's chunker (clone --seed / --seed-output)
    let cfg = archive.chunker_config().clone();
    let hash_len = archive.chunk_hash_length();
    let mut scanned: Option<bitar::ChunkIndex> = None;
    if let Some(sd) = &seed {
        let sd2 = sd.clone();
        let r = step("seed_scan", fails, || {
            crate::util::block_on_simple(async {
                let mut s = cfg.new_chunker(&sd2[..]);
                let mut n = 0usize;
                let mut ci = bitar::ChunkIndex::new_empty(hash_len);
                while let Some(item) = s.next().await {
                    match item {
                        Ok((off, chunk)) => {
                            n += 1;
                            if n > sd2.len() + 1 {
                                return Err(format!("[S7-endless-chunks] the archive's chunker emitted more chunks ({}) than the seed has bytes ({})", n, sd2.len()));
                            }
                            let v = chunk.verify();
                            ci.add_chunk(v.hash().clone(), v.len(), &[off]);
                        }
                        Err(_) => break,
                    }
                }
                Ok(ci)
            })
        });
        scanned = r;
    }
    let Some(index) = index else { return };
    // in-place reorder against the scanned "prior output", then fetch + decompress + verify + feed
    let mut out = MemOutput::new(seed.as_ref().map(|s| (**s).clone()).unwrap_or_default());
    out.cap = 64 * 1024 * 1024;
    let mut co = CloneOutput::new(out, index);
    if let Some(oi) = scanned {
        step("reorder_in_place", fails, || {
            let _ = crate::util::block_on_simple(co.reorder_in_place(oi));
            Ok(())
        });
    }
    let before = log.lock().unwrap().len();
    step("fetch", fails, || {
        crate::util::block_on(async {
            let mut items = 0usize;
            let mut stream = archive.chunk_stream(co.chunks());
            let mut got = vec![];
            while let Some(item) = stream.next().await {
                items += 1;
                match item {
                    Ok(c) => got.push(c),
                    Err(_) => break,
                }
                if items > 100_000 {
                    return Err("[unbounded] chunk_stream yields items without end".to_string());
                }
            }
            drop(stream);
            for c in got {
                let declared = c.len();
                let _ = declared;
                match c.decompress() {
                    Ok(ac) => {
                        // expected size is not public on ArchiveChunk; judge by the archive's largest declaration
                        let n = ac.len();
                        if let Ok(v) = ac.verify() {
                            let _ = co.feed(&v).await;
                        }
                        if n as u64 > MAX_DECLARED.with(|m| m.get()) {
                            return Err(format!("[S12-decompress-exceeds-declared] a stored chunk inflated to {} bytes although no chunk in the archive declares more than {} bytes", n, MAX_DECLARED.with(|m| m.get())));
                        }
                    }
                    Err(_) => {}
                }
            }
            Ok(())
        })
    });
    let _ = before;
    check_requests(&log, input_len, declared_sum, fails);
}

thread_local! {
    static MAX_DECLARED: std::cell::Cell<u64> = std::cell::Cell::new(0);
}

fn check_requests(log: &crate::iod::ReadLog, input_len: usize, declared_sum: u64, fails: &mut Vec<StepFail>) {
    let l = log.lock().unwrap();
    let mut total: u128 = 0;
    for r in l.iter() {
        match r {
            ReadRec::At { offset, size } => {
                total += *size as u128;
                if *offset == 14 && *size as u64 > input_len as u64 + 72 && !fails.iter().any(|f| f.fail.message.contains("[S1-oversize-header-request]")) {
                    fails.push(StepFail {
                        step: "try_init",
                        fail: Fail::msg(format!("step try_init: [S1-oversize-header-request] header read of {} bytes requested from an input of {} bytes (dictionary size field trusted before validation)", size, input_len)),
                    });
                }
            }
            ReadRec::Chunks(v) => {
                for (_, n) in v {
                    total += *n as u128;
                }
            }
        }
    }
    let bound = declared_sum as u128 + input_len as u128 + 86 + 14;
    if total > bound && !fails.iter().any(|f| f.fail.message.contains("[S1-oversize-header-request]") || f.fail.message.contains("[unbounded-requests]")) {
        fails.push(StepFail { step: "requests", fail: Fail::msg(format!("step requests: [unbounded-requests] {} bytes requested, more than the sum of declared chunk sizes plus the input length ({})", total, bound)) });
    }
}

fn http_script(t: &Transport) -> Script {
    match t {
        Transport::HttpBad { nth, kind, k } => {
            // declared lengths a lying server may announce: off by one either way, and sizes no allocation can satisfy
            let lies: [u64; 8] = [0, 1, 1 << 31, 1 << 40, 1 << 46, 1 << 62, i64::MAX as u64, u64::MAX];
            let a = match kind % 9 {
                // other answers a client has to survive: odd statuses with an error page or no body, a redirect loop
                8 => match k % 8 {
                    0 => Action { status: 204, body: Body::Empty, ..Default::default() },
                    1 => Action { status: 301, body: Body::Page, ..Default::default() },
                    2 => Action { status: 302, body: Body::Empty, redirect_self: true, ..Default::default() },
                    3 => Action { status: 400, body: Body::Page, ..Default::default() },
                    4 => Action { status: 416, body: Body::Empty, ..Default::default() },
                    5 => Action { status: 500, body: Body::Page, ..Default::default() },
                    6 => Action { status: 503, body: Body::Short(1), ..Default::default() },
                    _ => Action { status: 206, body: Body::Page, ..Default::default() },
                },
                5 => Action { declared_len: Some(lies[*k as usize % lies.len()]), ..Default::default() },
                6 => Action { declared_len: Some(lies[*k as usize % lies.len()]), body: Body::Short(*k as usize), ..Default::default() },
                // no Content-Length at all: a chunked response is valid HTTP and must simply work
                7 => Action { chunked: true, pieces: vec![1 + *k as usize], ..Default::default() },
                0 => Action { body: Body::Extra(1 + *k as usize), ..Default::default() },
                1 => Action { status: if k % 2 == 0 { 404 } else { 200 }, body: Body::Page, ..Default::default() },
                2 => Action { body: Body::Empty, ..Default::default() },
                3 => Action { body: Body::Short(*k as usize), ..Default::default() },
                _ => Action { body: Body::Wrong, ..Default::default() },
            };
            Script { rules: vec![(When::Nth(*nth as usize), a)], data_from: 0, max_requests: 400 }
        }
        _ => Script { max_requests: 400, ..Default::default() },
    }
}

/// predicted to make the reader ask the allocator for gigabytes (S1): judged out of process through the CLI
fn risky(m: &Mutated) -> bool {
    m.dict_size_field > (1 << 30)
}

fn cli_judge(name: &str, args: &[String], dir: &std::path::Path, stdin: Option<Vec<u8>>, fails: &mut Vec<StepFail>) -> Result<(), String> {
    let mut r = l2::run_bita(dir, &l2::RunSpec { args: args.to_vec(), stdin: stdin.clone(), timeout_s: 60, ..Default::default() });
    if r.timed_out {
        // these inputs are a few KiB and take milliseconds: run once more under a longer limit before calling it a hang
        r = l2::run_bita(dir, &l2::RunSpec { args: args.to_vec(), stdin, timeout_s: 240, ..Default::default() });
        if r.timed_out {
            fails.push(StepFail { step: "cli", fail: Fail::msg(format!("step cli {}: [hang] bita {} did not finish within 60 s and again not within 240 s on a few KiB of input: unbounded loop", name, name)) });
            return Ok(());
        }
    }
    let stderr = String::from_utf8_lossy(&r.stderr).to_string();
    if r.code == Some(101) || stderr.contains("panicked at ") {
        // thread 'main' panicked at bitar/src/archive.rs:279:23:\nmessage
        let mut rec = PanicRec { file: "?".into(), line: 0, message: String::new() };
        let lines: Vec<&str> = stderr.lines().collect();
        // first panic in a repo file, else first panic
        let mut chosen: Option<usize> = None;
        for (i, l) in lines.iter().enumerate() {
            if let Some(p) = l.find("panicked at ") {
                let loc = l[p + 12..].trim_end_matches(':');
                let repo = loc.starts_with("src/") || loc.starts_with("bitar/");
                if chosen.is_none() || (repo && !lines[chosen.unwrap()].contains("panicked at src/") && !lines[chosen.unwrap()].contains("panicked at bitar/")) {
                    chosen = Some(i);
                }
            }
        }
        if let Some(i) = chosen {
            let l = lines[i];
            let loc = l[l.find("panicked at ").unwrap() + 12..].trim_end_matches(':');
            let mut parts = loc.rsplitn(3, ':');
            let _col = parts.next();
            let line = parts.next().and_then(|x| x.parse().ok()).unwrap_or(0);
            let file = parts.next().unwrap_or("?").to_string();
            rec = PanicRec { file, line, message: lines.get(i + 1).unwrap_or(&"").to_string() };
        }
        fails.push(StepFail { step: "cli", fail: Fail { message: format!("step cli {}: panic at {}:{}: {}", name, rec.file, rec.line, rec.message), panic: Some(rec) } });
    } else if r.signal.is_some() {
        let what = if stderr.contains("memory allocation of") { "[S1-alloc-abort]" } else { "[abort]" };
        fails.push(StepFail { step: "cli", fail: Fail::msg(format!("step cli {}: {} process killed by signal {:?}: {}", name, what, r.signal, stderr.lines().last().unwrap_or(""))) });
    }
    Ok(())
}

fn judge(fails: Vec<StepFail>, known: &[KnownFinding], strict: bool, rec: &mut CaseRec) -> Result<(), String> {
    let discover = std::env::var("C15_DISCOVER").is_ok();
    let mut first_unknown: Option<(String, Option<PanicRec>)> = None;
    for f in &fails {
        match match_known_in(known, &f.fail) {
            Some(k) if !strict => rec.known.push(k.id.clone()),
            Some(k) => {
                first_unknown.get_or_insert((format!("{} (known finding {})", f.fail.message, k.id), f.fail.panic.clone()));
            }
            None if discover => {
                let sig = match &f.fail.panic {
                    Some(p) => format!("UNKNOWN {} | {} | {} | {}", f.step, p.file.rsplit('/').take(3).collect::<Vec<_>>().into_iter().rev().collect::<Vec<_>>().join("/"), source_line(&p.file, p.line), p.message.chars().take(60).collect::<String>()),
                    None => format!("UNKNOWN {} | {}", f.step, f.fail.message.chars().take(100).collect::<String>()),
                };
                rec.class(sig);
            }
            None => {
                first_unknown.get_or_insert((f.fail.message.clone(), f.fail.panic.clone()));
            }
        }
    }
    match first_unknown {
        Some((m, p)) => {
            if let Some(p) = p {
                repush_panic(p);
            }
            Err(m)
        }
        None => Ok(()),
    }
}

thread_local! {
    static KNOWN: Vec<KnownFinding> = load_known_findings().into_iter().filter(|k| k.property == "C15").collect();
    static LAST_PANIC: std::cell::RefCell<Option<PanicRec>> = std::cell::RefCell::new(None);
}

pub fn run_case_inner(c: &Case, rec: &mut CaseRec, strict: bool) -> Result<(), String> {
    if !c.cfg.chunker.is_valid() {
        rec.excluded = Some("invalid_base_config".into());
        return Ok(());
    }
    let source = expand(&c.source);
    let Some(m) = build_mutated(&source, &c.cfg, &c.muts) else {
        rec.excluded = Some("collision_guard".into());
        return Ok(());
    };
    MAX_DECLARED.with(|x| x.set(m.max_declared.max(1)));
    let seed = c.seed.as_ref().map(|r| Arc::new(related_bytes(&source, r)));
    let mut fails: Vec<StepFail> = vec![];
    let input_len = m.bytes.len();
    if (risky(&m) || c.l2) && std::env::var("BVERIF_NO_L2").is_ok() {
        rec.excluded = Some("needs_cli_process_skipped_in_fuzz_target".into());
        return Ok(());
    }
    if risky(&m) || c.l2 {
        // out of process: the real CLI
        let dir = worker_dir("C15");
        clean_dir(&dir);
        l2::write_file(&dir.join("a.cba"), &m.bytes);
        let srv = if c.transport != Transport::Local { Some(http::Server::start(Arc::new(m.bytes.clone()), http_script(&c.transport))) } else { None };
        let arch = srv.as_ref().map(|s| s.url()).unwrap_or_else(|| "a.cba".into());
        let r1 = cli_judge("info", &["info".to_string(), arch.clone()], &dir, None, &mut fails);
        let mut args = vec!["clone".to_string()];
        // seeds are scanned with the archive's chunker: a degenerate chunker (max size 0) is the known endless loop S7, steered away from at L2
        let mut steered = false;
        if let Some(sd) = &seed {
            if m.degenerate_chunker {
                steered = true;
            } else {
                l2::write_file(&dir.join("seed.bin"), sd);
                args.extend(["--seed".to_string(), "seed.bin".to_string()]);
            }
        }
        args.extend([arch, "o.out".to_string()]);
        let r2 = cli_judge("clone", &args, &dir, None, &mut fails);
        drop(srv);
        clean_dir(&dir);
        r1?;
        r2?;
        rec.level = Some("L2");
        rec.class_if(risky(&m), "risky_dict_size_via_cli");
        if steered {
            rec.class("known_finding_steered_S7_at_L2");
        }
    } else {
        match &c.transport {
            Transport::Local => {
                let reader = IoReader::new(crate::iod::FragReader::from_vec(m.bytes.clone(), ReadScript::full()));
                pipeline(reader, input_len, m.declared_sum, seed.clone(), &mut fails, rec);
            }
            t => {
                let srv = http::Server::start(Arc::new(m.bytes.clone()), http_script(t));
                let url: reqwest::Url = srv.url().parse().unwrap();
                pipeline(HttpReader::from_url(url), input_len, m.declared_sum + 4096, seed.clone(), &mut fails, rec);
                if srv.overrun.load(std::sync::atomic::Ordering::SeqCst) {
                    fails.push(StepFail { step: "requests", fail: Fail::msg(format!("step requests: [unbounded-http-requests] the client sent more than {} requests for one archive (no bound on re-requests)", 400)) });
                }
                drop(srv);
            }
        }
        rec.level = Some("L1");
    }
    rec.nontrivial = true; // passes magic + checksum by construction and reaches dictionary decoding
    rec.class(match &c.transport {
        Transport::Local => "local",
        Transport::Http => "http_honest",
        Transport::HttpBad { .. } => "http_misbehaving",
    });
    for mu in &c.muts {
        let s = format!("{:?}", mu);
        rec.class(format!("mut_{}", s.split(|ch: char| !ch.is_alphanumeric()).next().unwrap_or("")));
    }
    rec.class_if(seed.is_some(), "with_seed");
    KNOWN.with(|k| judge(fails, k, strict, rec))
}

pub fn run_raw_inner(c: &RawCase, rec: &mut CaseRec, strict: bool) -> Result<(), String> {
    let mut bytes = match &c.base {
        Some((src, cfg)) if cfg.chunker.is_valid() => {
            let source = expand(src);
            let e = encode_archive(&source, cfg, &EncSpec::default());
            let mut b = e.bytes;
            if !c.bytes.is_empty() {
                // splice raw bytes somewhere
                let p = idx(c.bytes[0] as u16 * 256, b.len() + 1);
                for (k, x) in c.bytes.iter().enumerate() {
                    if p + k < b.len() {
                        b[p + k] = *x;
                    }
                }
            }
            b
        }
        _ => c.bytes.clone(),
    };
    let mut one_bit = false;
    if let Some(f) = c.flip {
        if !bytes.is_empty() {
            let bit = ((f as u64 * (bytes.len() as u64 * 8)) >> 32) as usize;
            bytes[bit / 8] ^= 1 << (bit % 8);
            one_bit = c.base.is_some() && c.bytes.is_empty();
        }
    }
    if let Some(t) = c.trunc {
        let n = ((t as u64 * (bytes.len() as u64 + 1)) >> 32) as usize;
        bytes.truncate(n);
    }
    let mut fails = vec![];
    let dsf = if bytes.len() >= 14 { u64::from_le_bytes(bytes[6..14].try_into().unwrap()) } else { 0 };
    MAX_DECLARED.with(|x| x.set(u32::MAX as u64));
    if dsf > (1 << 30) && (bytes.starts_with(fmt::MAGIC) || bytes.starts_with(fmt::LEGACY_MAGIC)) && std::env::var("BVERIF_NO_L2").is_ok() {
        rec.excluded = Some("needs_cli_process_skipped_in_fuzz_target".into());
        return Ok(());
    }
    if dsf > (1 << 30) && (bytes.starts_with(fmt::MAGIC) || bytes.starts_with(fmt::LEGACY_MAGIC)) {
        let dir = worker_dir("C15");
        clean_dir(&dir);
        l2::write_file(&dir.join("a.cba"), &bytes);
        let r = cli_judge("info", &["info".to_string(), "a.cba".to_string()], &dir, None, &mut fails);
        clean_dir(&dir);
        r?;
        rec.level = Some("L2");
        rec.class("risky_dict_size_via_cli");
    } else {
        let n = bytes.len();
        let reader = IoReader::new(crate::iod::FragReader::from_vec(bytes, ReadScript::full()));
        pipeline(reader, n, u32::MAX as u64 * 4, c.seed.clone().map(Arc::new), &mut fails, rec);
        rec.level = Some("L1");
    }
    rec.nontrivial = one_bit;
    rec.class_if(one_bit, "valid_archive_one_bit_flipped");
    rec.class_if(c.base.is_none(), "raw_bytes");
    rec.class_if(c.trunc.is_some(), "truncated");
    KNOWN.with(|k| judge(fails, k, strict, rec))
}

pub fn case_strategy() -> impl Strategy<Value = Case> {
    (
        prop_oneof![
            3 => prop::collection::vec(prop_oneof![(1u32..400, any::<u32>()).prop_map(|(n, seed)| Seg::Random { n, seed }), (1u32..400, any::<u32>()).prop_map(|(n, seed)| Seg::Text { n, seed }), (1u32..400).prop_map(|n| Seg::Const { b: 0, n })], 1..3),
            1 => Just(vec![]),
        ],
        arch_cfg_strategy(4, true),
        prop::collection::vec(mutation_strategy(), 1..4),
        prop_oneof![1 => Just(None), 2 => related_strategy(200).prop_map(Some)],
        prop_oneof![5 => Just(Transport::Local), 1 => Just(Transport::Http), 3 => (0u8..4, 0u8..9, 0u8..8).prop_map(|(nth, kind, k)| Transport::HttpBad { nth, kind, k })],
        prop::bool::weighted(0.05),
    )
        .prop_map(|(source, cfg, muts, seed, transport, l2)| Case { source, cfg, muts, seed, transport, l2 })
}

fn raw_strategy() -> impl Strategy<Value = RawCase> {
    let base = (prop::collection::vec((1u32..200, any::<u32>()).prop_map(|(n, seed)| Seg::Random { n, seed }), 1..3), arch_cfg_strategy(4, true)).boxed();
    prop_oneof![
        // raw bytes, some starting with a magic
        2 => (prop::collection::vec(any::<u8>(), 0..200), any::<bool>()).prop_map(|(mut b, magic)| {
            if magic {
                let mut v = fmt::MAGIC.to_vec();
                v.append(&mut b);
                b = v;
            }
            RawCase { base: None, bytes: b, flip: None, trunc: None, seed: None }
        }),
        // one flipped bit
        4 => (base.clone(), any::<u32>()).prop_map(|(b, f)| RawCase { base: Some(b), bytes: vec![], flip: Some(f), trunc: None, seed: None }),
        // truncation
        2 => (base.clone(), any::<u32>()).prop_map(|(b, t)| RawCase { base: Some(b), bytes: vec![], flip: None, trunc: Some(t), seed: None }),
        // overwrite + maybe flip
        2 => (base, prop::collection::vec(any::<u8>(), 1..10), prop::option::of(any::<u32>())).prop_map(|(b, bytes, flip)| RawCase { base: Some(b), bytes, flip, trunc: None, seed: None }),
    ]
}

impl Prop for C15 {
    fn id(&self) -> &'static str {
        "C15"
    }
    fn meta(&self, _tier: Tier) -> Meta {
        Meta {
            rule: "variant 'struct': a conforming archive is built by the independent encoder, then 1-3 field-level mutations are applied to the decoded dictionary / header fields (dictionary size field, chunk data offset, rebuild indexes / length, descriptor sizes / offsets / checksum lengths / duplicates / removals, chunker parameters incl. 0 and extreme values, enum values, missing sub-messages, source size / checksum length, a decompression bomb as stored chunk, garbage dictionary) and the header checksum is RE-COMPUTED, so every case passes magic + checksum and reaches dictionary decoding; then the whole reader pipeline runs step by step (try_init, accessors and the values `bita info` derives, build_source_index, seed scan with the archive's own chunker, in-place reorder against the scanned seed, chunk_stream, decompress, verify, feed) over a local reader, an honest HTTP server and a misbehaving one (extra bytes, wrong status + page, empty body, short body, wrong bytes). Cases predicted to make the reader ask for gigabytes (dictionary size field > 1 GiB) and a 5% sample go through the real `bita info` / `bita clone` in their own process. Variant 'raw': raw bytes, one flipped bit, truncations and overwrites of valid archives. Violations: a panic in any step (located by file + source line), a process killed by a signal, and the clock-free bounds: more chunks emitted than the seed has bytes, more bytes requested than declared chunk sizes + input length, a header read larger than the input, a stored chunk inflating beyond the largest size any descriptor declares. Non-trivial = passes magic + checksum (all 'struct' cases) or a valid archive with exactly one altered bit; distinct by Blake2 of the canonical case.".into(),
            assumptions: vec![
                "allocation is judged by the sizes requested at the reader boundary and by decompression output sizes, not by RSS".into(),
                "wall-clock timeouts of the CLI are inconclusive (exit 2), never violations; the endless-chunk loop is decided without a clock at L1".into(),
            ],
            announce: true,
            dead_worker_is_violation: true,
            ..Meta::default()
        }
    }
    fn run_worker(&self, cx: &mut WorkerCtx) {
        let t = cx.tier;
        cx.run_prop("struct", t.pick(40_000, 1_000_000), case_strategy(), |c, rec| run_case_inner(c, rec, false));
        cx.run_prop("raw", t.pick(20_000, 400_000), raw_strategy(), |c, rec| run_raw_inner(c, rec, false));
        let _ = std::fs::remove_dir_all(worker_dir("C15"));
    }
    fn replay(&self, cx: &mut WorkerCtx, variant: &str, case: &Value) -> Result<(), String> {
        let mut rec = CaseRec::default();
        match variant {
            "raw" => run_raw_inner(&serde_json::from_value(case.clone()).map_err(|e| e.to_string())?, &mut rec, cx.strict),
            _ => run_case_inner(&serde_json::from_value(case.clone()).map_err(|e| e.to_string())?, &mut rec, cx.strict),
        }
    }
}
