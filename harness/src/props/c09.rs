//! C09 — chunking is a pure, read-independent function following the rolling-hash rule.
use crate::engine::*;
use crate::gen::*;
use crate::refs::chunker::{ref_chunks, CutKind};
use crate::util::block_on_simple;
use proptest::prelude::*;
use serde::{Deserialize, Serialize};
use serde_json::Value;
use std::sync::Arc;

pub struct C09;

#[derive(Clone, Debug, Serialize, Deserialize)]
pub struct Case {
    pub cfg: ChunkerCfg,
    pub source: SourceSpec,
    pub reads: ReadScript,
}

pub fn exhaustive_configs(tier: Tier) -> Vec<ChunkerCfg> {
    let mut v = vec![];
    for n in 1..=4usize {
        v.push(ChunkerCfg { algo: Algo::FixedSize, bits: 0, min: 0, max: n, window: 0 });
    }
    let windows: &[usize] = tier.pick(&[1, 2, 3], &[1, 2, 3, 4]);
    for algo in [Algo::RollSum, Algo::BuzHash] {
        for &w in windows {
            for bits in [1u32, 2] {
                for (min, max) in [(0, w.max(4)), (1, w.max(5)), (w, w + 3), (w + 1, w + 4), (w.saturating_sub(1), w)] {
                    v.push(ChunkerCfg { algo, bits, min, max, window: w });
                }
            }
        }
    }
    v.retain(|c| c.is_valid());
    v
}

pub fn run_bitar(cfg: &ChunkerCfg, data: Arc<Vec<u8>>, reads: &ReadScript) -> Result<Vec<(u64, Vec<u8>)>, String> {
    let bc = cfg.to_bitar();
    block_on_simple(crate::l1::bitar_chunks(&bc, data, reads.clone()))
}

/// The oracle. Returns classes describing the case.
pub fn check(cfg: &ChunkerCfg, data: &Arc<Vec<u8>>, reads: &ReadScript, rec: &mut CaseRec) -> Result<(), String> {
    if !cfg.is_valid() {
        rec.excluded = Some("invalid_config".into());
        return Ok(());
    }
    let got = run_bitar(cfg, data.clone(), &ReadScript::full())?;
    // (i) tiling
    let mut pos = 0u64;
    let mut cat: Vec<u8> = Vec::with_capacity(data.len());
    for (off, bytes) in &got {
        if *off != pos {
            return Err(format!("tiling: chunk offset {} but previous chunks end at {}", off, pos));
        }
        if bytes.is_empty() {
            return Err(format!("tiling: empty chunk at {}", off));
        }
        pos += bytes.len() as u64;
        cat.extend_from_slice(bytes);
    }
    if cat != **data {
        return Err(crate::util::describe_diff("tiling: concatenation != input", &cat, data));
    }
    // (ii) bounds
    for (i, (off, bytes)) in got.iter().enumerate() {
        let last = i + 1 == got.len();
        match cfg.algo {
            Algo::FixedSize => {
                if !last && bytes.len() != cfg.max {
                    return Err(format!("bounds: fixed-size chunk at {} has length {} != {}", off, bytes.len(), cfg.max));
                }
                if bytes.len() > cfg.max {
                    return Err(format!("bounds: chunk at {} longer than fixed size", off));
                }
            }
            _ => {
                if bytes.len() > cfg.max {
                    return Err(format!("bounds: chunk at {} has length {} > max {}", off, bytes.len(), cfg.max));
                }
                if !last && bytes.len() < cfg.min {
                    return Err(format!("bounds: chunk at {} has length {} < min {}", off, bytes.len(), cfg.min));
                }
            }
        }
    }
    // (iii) reference
    let small = data.len() <= 2048;
    let want = ref_chunks(cfg, data, small);
    if !small || data.len() <= 256 {
        // cross-check the two evaluation strategies of the reference itself on small inputs
        if data.len() <= 256 {
            let inc = ref_chunks(cfg, data, false);
            if inc != want {
                return Err("harness: reference closed form and incremental form disagree".into());
            }
        }
    }
    let got_cuts: Vec<(usize, usize)> = got.iter().map(|(o, b)| (*o as usize, b.len())).collect();
    let want_cuts: Vec<(usize, usize)> = want.iter().map(|c| (c.offset, c.len)).collect();
    if got_cuts != want_cuts {
        let i = got_cuts.iter().zip(want_cuts.iter()).position(|(a, b)| a != b).unwrap_or(got_cuts.len().min(want_cuts.len()));
        return Err(format!(
            "rule: chunk #{} differs from the reference: bitar {:?} reference {:?} ({} vs {} chunks)",
            i,
            got_cuts.get(i),
            want_cuts.get(i),
            got_cuts.len(),
            want_cuts.len()
        ));
    }
    // (iv) read independence
    if *reads != ReadScript::full() {
        let frag = run_bitar(cfg, data.clone(), reads)?;
        if frag != got {
            let i = frag.iter().zip(got.iter()).position(|(a, b)| a != b).unwrap_or(frag.len().min(got.len()));
            return Err(format!(
                "read-dependence: chunk #{} differs under read script {:?}: {:?} vs {:?}",
                i,
                reads,
                frag.get(i).map(|c| (c.0, c.1.len())),
                got.get(i).map(|c| (c.0, c.1.len()))
            ));
        }
        rec.class("fragmented_reads");
        rec.class_if(reads.pending_every > 0, "pending_injected");
    }
    // classification
    let hash_cuts = want.iter().filter(|c| c.kind == CutKind::Hash).count();
    let max_cuts = want.iter().filter(|c| c.kind == CutKind::Max).count();
    let min_cuts = want.iter().filter(|c| c.kind == CutKind::Hash && c.len == cfg.min.max(1)).count();
    rec.nontrivial = want.len() >= 3 && (hash_cuts >= 1 || cfg.algo == Algo::FixedSize);
    rec.class(format!("{:?}", cfg.algo));
    rec.class_if(data.is_empty(), "empty");
    rec.class_if(hash_cuts > 0, "hash_cut");
    rec.class_if(max_cuts > 0, "max_cut");
    rec.class_if(min_cuts > 0, "min_cut");
    rec.class_if(cfg.algo != Algo::FixedSize && cfg.min < cfg.window && want.len() >= 2, "window_reaches_prev_chunk");
    rec.class_if(cfg.algo != Algo::FixedSize && cfg.min == cfg.window, "min_eq_window");
    rec.class_if(cfg.algo != Algo::FixedSize && cfg.min > cfg.window, "min_gt_window");
    rec.class_if(data.len() < cfg.window, "shorter_than_window");
    rec.class_if(data.len() > 1024 * 1024, "over_1MiB");
    rec.class_if(want.iter().any(|c| c.len > 1024 * 1024), "chunk_over_1MiB");
    rec.class_if(want.iter().any(|c| c.len > 3 * 1024 * 1024), "chunk_over_3MiB");
    rec.class_if(
        data.windows(cfg.window.max(1) + 2).any(|w| w.iter().all(|b| *b == 0)) && cfg.algo == Algo::BuzHash,
        "buz_zero_run_ge_window",
    );
    Ok(())
}

pub fn case_strategy() -> impl Strategy<Value = Case> {
    (
        small_chunker_strategy(),
        prop_oneof![3 => source_strategy(6, 1500), 2 => zero_heavy_strategy(8, 300)],
        read_script_strategy(),
    )
        .prop_map(|(cfg, source, reads)| Case { cfg, source, reads })
}
fn large_case_strategy(max_seg: u32) -> impl Strategy<Value = Case> {
    // one chunk of several MiB (a constant run is never cut by the hash; max chunk 16 MiB): the refill loop has to
    // carry the scan state over many 1 MiB refills
    let huge = (prop_oneof![Just(Algo::RollSum), Just(Algo::BuzHash)], 3_200_000u32..=5_500_000, any::<u32>(), 1u8..=255).prop_map(|(algo, n, seed, b)| Case {
        cfg: ChunkerCfg { algo, bits: 15, min: 16 * 1024, max: 16 * 1024 * 1024, window: if algo == Algo::RollSum { 64 } else { 16 } },
        source: vec![Seg::Random { n: 40_000, seed }, Seg::Const { b, n }, Seg::Random { n: 90_000, seed: seed ^ 3 }],
        reads: ReadScript { sizes: vec![1 << 20, 65536], pending_every: 0 },
    });
    let general = (
        large_chunker_strategy(),
        prop::collection::vec(
            prop_oneof![
                3 => (0u32..=max_seg, any::<u32>()).prop_map(|(n, seed)| Seg::Random { n, seed }),
                2 => (0u32..=max_seg).prop_map(|n| Seg::Const { b: 0, n }),
                1 => (0u32..=max_seg, any::<u32>()).prop_map(|(n, seed)| Seg::Text { n, seed }),
                1 => (any::<u16>(), 0u32..=max_seg).prop_map(|(at, len)| Seg::CopyOf { at, len }),
            ],
            1..5,
        ),
        prop_oneof![
            Just(ReadScript::full()),
            Just(ReadScript { sizes: vec![65536, 1000, 1 << 20], pending_every: 3 }),
            Just(ReadScript { sizes: vec![4096], pending_every: 0 }),
        ],
    )
        .prop_map(|(cfg, source, reads)| Case { cfg, source, reads });
    prop_oneof![5 => general, 1 => huge]
}

pub fn run_case(c: &Case, rec: &mut CaseRec) -> Result<(), String> {
    let data = Arc::new(expand(&c.source));
    check(&c.cfg, &data, &c.reads, rec)
}

#[derive(Clone, Debug, Serialize, Deserialize)]
struct ExhCase {
    cfg: ChunkerCfg,
    bytes: Vec<u8>,
}

impl Prop for C09 {
    fn id(&self) -> &'static str {
        "C09"
    }
    fn meta(&self, _tier: Tier) -> Meta {
        Meta {
            rule: "cases = (chunker config, source bytes, read script). 'exh': every string of length <= N over {0x00,0x01,0x55} x an enumerated grid of tiny configs, each read whole and one byte per read; 'rand': proptest over small configs x segment-built sources (general and zero-run-heavy) x read scripts; 'large': configs up to 16 MiB max chunk x sources of several MiB. Oracle: tiling, size bounds, equality with the independent reference chunker R1, equality under read fragmentation. Non-trivial = at least 3 chunks and at least one hash-triggered cut (fixed-size: at least 3 chunks); distinct by Blake2 of the canonical case.".into(),
            assumptions: vec![
                "R1 (harness/src/refs/chunker.rs) is the trusted statement of the rule; its closed form and incremental form are cross-checked on every input <= 256 bytes".into(),
                "the BuzHash substitution table is copied as data (as the repository's golden files implicitly do)".into(),
            ],
            conventions: vec![
                "RollSum: window zero-filled before the stream starts".into(),
                "BuzHash: no boundary test until window+1 bytes of the stream have been consumed".into(),
            ],
            ..Meta::default()
        }
    }
    fn run_worker(&self, cx: &mut WorkerCtx) {
        // exhaustive part
        let maxlen = cx.tier.pick(10usize, 12usize);
        let alphabet = [0x00u8, 0x01, 0x55];
        let cfgs = exhaustive_configs(cx.tier);
        let one = ReadScript { sizes: vec![1], pending_every: 0 };
        let mut index = 0u64;
        let mut count = 0u64;
        for len in 0..=maxlen {
            let total = 3usize.pow(len as u32);
            for code in 0..total {
                index += 1;
                if !cx.mine(index) {
                    continue;
                }
                let mut bytes = Vec::with_capacity(len);
                let mut c = code;
                for _ in 0..len {
                    bytes.push(alphabet[c % 3]);
                    c /= 3;
                }
                let data = Arc::new(bytes);
                for cfg in &cfgs {
                    count += 1;
                    let case = ExhCase { cfg: *cfg, bytes: (*data).clone() };
                    let key = blake2_64(&[b"exh", &(len as u64).to_le_bytes(), &(code as u64).to_le_bytes(), format!("{:?}", cfg).as_bytes()]);
                    let d = data.clone();
                    let ok = cx.eval_case("exh", &case, key, |rec| check(cfg, &d, &one, rec));
                    if !ok {
                        break;
                    }
                }
            }
        }
        cx.set_exhaustive(&format!("strings_len_le_{}_over_3_symbols_x_{}_configs", maxlen, cfgs.len()), count);
        if cx.stats.failures.len() >= 3 {
            return;
        }
        // random part
        let n = cx.tier.pick(400_000u64, 6_000_000u64);
        cx.run_prop("rand", n, case_strategy(), run_case);
        // large part
        let n = cx.tier.pick(320u64, 4000u64);
        let seg = cx.tier.pick(900_000u32, 2_800_000u32);
        cx.run_prop("large", n, large_case_strategy(seg), run_case);
    }
    fn replay(&self, _cx: &mut WorkerCtx, variant: &str, case: &Value) -> Result<(), String> {
        let mut rec = CaseRec::default();
        match variant {
            "exh" => {
                let c: ExhCase = serde_json::from_value(case.clone()).map_err(|e| e.to_string())?;
                let d = Arc::new(c.bytes);
                check(&c.cfg, &d, &ReadScript { sizes: vec![1], pending_every: 0 }, &mut rec)
            }
            _ => {
                let c: Case = serde_json::from_value(case.clone()).map_err(|e| e.to_string())?;
                run_case(&c, &mut rec)
            }
        }
    }
}
