//! Shared L2 scenario runner: the real `bita clone` on files, observed through the iohook shim
//! (write log of the output, read log of the archive) or the scripted HTTP server (Range log).
use crate::engine::*;
use crate::gen::*;
use crate::http;
use crate::l2;
use crate::props::c01::{clean_dir, worker_dir};
use crate::scen::*;
use proptest::prelude::*;
use serde::{Deserialize, Serialize};
use serde_json::Value;
use std::collections::BTreeMap;
use std::sync::Arc;

#[derive(Clone, Debug, Serialize, Deserialize)]
pub struct L2Scen {
    pub scen: Scenario,
    pub http: bool,
    /// which seed (index) is delivered through stdin (`--seed -`), if any
    pub stdin_seed: Option<u8>,
    pub verify_output: bool,
    pub cli_writer: bool,
    /// one injected I/O fault (iohook): (op, path suffix, k-th call, errno) — a single write to the output or a single read
    /// of the first seed file fails; every other call works. A clone that fails because of it is fine; one that still
    /// reports success is held to the same oracle as a fault-free run.
    #[serde(default)]
    pub fault: Option<(String, String, u32, i32)>,
}

pub fn l2scen_strategy(base: BoxedStrategy<Scenario>) -> impl Strategy<Value = L2Scen> {
    let fault = prop_oneof![
        10 => Just(None),
        2 => (0u32..10).prop_map(|k| Some(("write".to_string(), "o.out".to_string(), k, libc::EIO))),
        1 => (0u32..10).prop_map(|k| Some(("write".to_string(), "o.out".to_string(), k, libc::EFBIG))),
        1 => (0u32..3).prop_map(|k| Some(("read".to_string(), "seed0.bin".to_string(), k, libc::EIO))),
    ];
    (base, l2::cli_chunker_strategy(), any::<bool>(), prop_oneof![2 => Just(None), 1 => (0u8..4).prop_map(Some)], any::<bool>(), (any::<bool>(), fault)).prop_map(
        |(mut scen, chunker, http, stdin_seed, verify_output, (cli_writer, fault))| {
            scen.cfg.chunker = chunker;
            // --verify-output hashes the whole device, so on a block device longer than the source it reports a
            // mismatch by construction (observed; outside the listed properties) — not combined here.
            let verify_output = verify_output && !scen.block_dev;
            L2Scen { scen, http, stdin_seed, verify_output, cli_writer, fault }
        },
    )
}

pub struct L2Observed {
    pub run: l2::RunOut,
    pub output: Option<Vec<u8>>,
    pub events: Vec<l2::HookEvent>,
    pub http_log: Vec<http::ReqLog>,
    pub header: crate::refs::format::Header,
    pub seed_pipe_used: bool,
    pub seed_aliases_output: bool,
}

/// Run one L2 scenario and return what was observed. `extra_hook` lets callers inject faults.
pub fn execute(prop: &str, c: &L2Scen, e: &Expect, extra_hook: Option<l2::Hook>, prior_override: Option<&[u8]>) -> Result<L2Observed, String> {
    execute_on(prop, c, e, extra_hook, prior_override, None)
}

/// `device`: clone onto this existing path (a real block device the caller has pre-filled) with the production
/// binary instead of `o.out` in the work directory.
pub fn execute_on(prop: &str, c: &L2Scen, e: &Expect, extra_hook: Option<l2::Hook>, prior_override: Option<&[u8]>, device: Option<&str>) -> Result<L2Observed, String> {
    let s = &c.scen;
    let dir = worker_dir(prop);
    clean_dir(&dir);
    // archive
    let archive: Vec<u8> = if c.cli_writer {
        compress_cli(&dir, "a", &e.source, &s.cfg, false, &[], None)?.0
    } else {
        let a = crate::util::block_on(crate::l1::compress_lib(e.source.clone(), &s.cfg, ReadScript::full(), &BTreeMap::new()))?;
        l2::write_file(&dir.join("a.cba"), &a);
        a
    };
    let header = crate::refs::format::decode_header(&archive).map_err(|x| format!("harness: fresh archive not decodable: {}", x))?;
    // seeds
    let mut args: Vec<String> = vec![];
    let mut stdin: Option<Vec<u8>> = None;
    let mut seed_pipes: Vec<l2::FifoFeeder> = vec![];
    let stdin_idx = c.stdin_seed.map(|i| i as usize).filter(|i| *i < e.seeds.len());
    for (i, sd) in e.seeds.iter().enumerate() {
        if Some(i) == stdin_idx {
            stdin = Some((**sd).clone());
            args.push("--seed".into());
            args.push("-".into());
        } else {
            let name = format!("seed{}.bin", i);
            // a seed file may be a named pipe (a function of the case): a seed is a stream, whatever its metadata says
            let as_pipe = std::env::var("BVERIF_NO_VERBOSITY").is_err() && blake2_64(&[&case_salt().to_le_bytes(), b"seed-pipe", &[i as u8]]) % 6 == 0;
            if as_pipe {
                seed_pipes.push(l2::FifoFeeder::start(&dir.join(&name), (**sd).clone())?);
            } else {
                l2::write_file(&dir.join(&name), sd);
            }
            args.push("--seed".into());
            args.push(name);
        }
    }
    let prior = prior_override.map(|p| p.to_vec()).or_else(|| e.prior.clone());
    // option combinations that ask for nothing new (a function of the case): 0 and 1 in 2 cases of 6
    let mut seed_aliases_output = false;
    let flag_mix = if std::env::var("BVERIF_NO_VERBOSITY").is_err() { blake2_64(&[&case_salt().to_le_bytes(), b"flag-mix"]) % 6 } else { 5 };
    if let Some(p) = &prior {
        if device.is_none() {
            l2::write_file(&dir.join("o.out"), p);
        }
        if s.inplace {
            args.push("--seed-output".into());
            // --force-create next to --seed-output asks for nothing more (the output may exist either way)
            if flag_mix == 0 {
                args.push("--force-create".into());
            }
        } else {
            args.push("--force-create".into());
            // the file being overwritten may also be named as a seed (by its own path or through a hard link): seeds never
            // change what a clone produces. Only where the final bytes are judged - what is found in a seed that is being
            // overwritten while it is read is not predictable, so the read / write / request oracles keep their plain seeds.
            if device.is_none() && matches!(prop, "C02" | "C03") {
                match flag_mix {
                    2 => args.extend(["--seed".to_string(), "o.out".to_string()]),
                    3 => {
                        let _ = std::fs::remove_file(dir.join("o.link"));
                        if std::fs::hard_link(dir.join("o.out"), dir.join("o.link")).is_ok() {
                            args.extend(["--seed".to_string(), "o.link".to_string()]);
                        }
                    }
                    _ => {}
                }
                seed_aliases_output = matches!(flag_mix, 2 | 3);
            }
        }
    } else if device.is_none() {
        // no output yet: --force-create or --seed-output on an absent output is a plain clone into a new file
        match flag_mix {
            0 => args.push("--force-create".into()),
            1 => args.push("--seed-output".into()),
            _ => {}
        }
    }
    if c.verify_output {
        args.push("--verify-output".into());
    }
    args.push("--buffered-chunks".into());
    args.push(s.clone_buffers.to_string());
    let mut hook = extra_hook.unwrap_or_default();
    hook.watch.push("o.out".into());
    hook.watch.push("a.cba".into());
    let log = dir.join("hook.log");
    let mut env = vec![];
    if s.block_dev && device.is_none() {
        env.push(("BITA_VERIF_FORCE_BLOCKDEV".to_string(), "1".to_string()));
    }
    if let Some(d) = device {
        hook.watch.push(d.rsplit('/').next().unwrap_or(d).to_string());
    }
    let srv = if c.http { Some(http::Server::start(Arc::new(archive.clone()), http::Script::default())) } else { None };
    let arch_arg = srv.as_ref().map(|s| s.url()).unwrap_or_else(|| "a.cba".to_string());
    let (run, mut output) = clone_cli(&dir, &arch_arg, device.unwrap_or("o.out"), &args, stdin, Some((&hook, &log)), s.block_dev && device.is_none(), &env);
    let seed_pipe_used = !seed_pipes.is_empty();
    for f in seed_pipes {
        f.finish();
    }
    if let Some(d) = device {
        output = std::fs::read(d).ok();
    }
    let http_log = srv.as_ref().map(|s| s.requests()).unwrap_or_default();
    drop(srv);
    let events = l2::parse_hook_log(&log);
    Ok(L2Observed { run, output, events, http_log, header, seed_pipe_used, seed_aliases_output })
}

fn ranges_union_exact(mut got: Vec<(u64, u64)>, mut want: Vec<(u64, u64)>) -> Result<(), String> {
    // each byte once: no overlaps in got; union(got) == union(want)
    got.retain(|r| r.1 > 0);
    want.retain(|r| r.1 > 0);
    got.sort();
    want.sort();
    for w in got.windows(2) {
        if w[0].0 + w[0].1 > w[1].0 {
            return Err(format!("read log: bytes [{}, {}) of the archive requested more than once", w[1].0, (w[0].0 + w[0].1).min(w[1].0 + w[1].1)));
        }
    }
    let merge = |v: &Vec<(u64, u64)>| {
        let mut out: Vec<(u64, u64)> = vec![];
        for &(o, n) in v {
            match out.last_mut() {
                Some(l) if l.0 + l.1 >= o => l.1 = (o + n).max(l.0 + l.1) - l.0,
                _ => out.push((o, n)),
            }
        }
        out
    };
    let (g, w) = (merge(&got), merge(&want));
    if g != w {
        let extra: Vec<_> = g.iter().filter(|x| !w.contains(x)).take(3).collect();
        let lacking: Vec<_> = w.iter().filter(|x| !g.contains(x)).take(3).collect();
        return Err(format!("read log: chunk data requested from the archive is not exactly the stored ranges of the missing chunks (requested-but-unexpected e.g. {:?}, expected-but-not-requested e.g. {:?})", extra, lacking));
    }
    Ok(())
}

pub fn check_l2_reads(e: &Expect, o: &L2Observed, http: bool) -> Result<(), String> {
    let h = &o.header;
    let hl = e.hash_len;
    let want: Vec<(u64, u64)> = h
        .dictionary
        .chunk_descriptors
        .iter()
        .filter(|d| e.missing.contains(&d.checksum[..hl.min(d.checksum.len())].to_vec()))
        .map(|d| (h.chunk_data_offset + d.archive_offset, d.archive_size as u64))
        .collect();
    let mut got: Vec<(u64, u64)> = vec![];
    if http {
        for r in &o.http_log {
            let Some((a, b)) = r.range else { return Err("read log: request without a Range header".into()) };
            if b < a {
                return Err(format!("read log: inverted range {}-{}", a, b));
            }
            if b < h.header_len as u64 {
                continue; // header region
            }
            if a < h.header_len as u64 {
                return Err(format!("read log: range {}-{} straddles the header end {}", a, b, h.header_len));
            }
            got.push((a, b - a + 1));
        }
    } else {
        for ev in o.events.iter().filter(|ev| ev.path.ends_with("a.cba") && ev.op == "read" && ev.ret > 0) {
            let (a, n) = (ev.off as u64, ev.ret as u64);
            if a + n <= h.header_len as u64 {
                continue;
            }
            if a < h.header_len as u64 {
                return Err(format!("read log: read [{}, {}) straddles the header end {}", a, a + n, h.header_len));
            }
            got.push((a, n));
        }
    }
    ranges_union_exact(got, want)
}

pub fn check_l2_writes(e: &Expect, o: &L2Observed) -> Result<(), String> {
    let by_off: std::collections::HashMap<usize, &MChunk> = e.src_chunks.iter().map(|m| (m.off, m)).collect();
    let mut seen = std::collections::HashSet::new();
    // coalesce split writes (a write_all may be split by the kernel): consecutive events that continue each other
    let evs: Vec<&l2::HookEvent> = o.events.iter().filter(|ev| ev.path.ends_with("o.out") && ev.op == "write" && ev.ret > 0).collect();
    let mut i = 0;
    while i < evs.len() {
        let off = evs[i].off as usize;
        let Some(m) = by_off.get(&off) else {
            return Err(format!("write log: write of {} bytes at {} which is not the offset of any source chunk", evs[i].ret, off));
        };
        let mut n = evs[i].ret as usize;
        let single = n == m.len;
        let mut j = i + 1;
        while n < m.len && j < evs.len() && evs[j].off as usize == off + n {
            n += evs[j].ret as usize;
            j += 1;
        }
        if n != m.len {
            return Err(format!("write log: write at {} has {} bytes, the source chunk there has {}", off, n, m.len));
        }
        if single && evs[i].fnv != l2::fnv1a(&e.source[m.off..m.off + m.len]) {
            return Err(format!("write log: bytes written at {} are not the source chunk's bytes", off));
        }
        if off + n > e.source.len() {
            return Err(format!("write log: write at {} reaches beyond the source length", off));
        }
        if !seen.insert(off) {
            return Err(format!("write log: location {} written more than once", off));
        }
        if e.in_place_offsets.contains(&off) {
            return Err(format!("write log: location {} already held the right chunk in the prior output but was written", off));
        }
        i = j;
    }
    Ok(())
}

pub fn l2_scenario(prop: &str, c: &L2Scen, rec: &mut CaseRec, nontrivial: &dyn Fn(&Scenario, &Expect, &mut CaseRec)) -> Result<(), String> {
    let s = &c.scen;
    if !l2::cli_expressible(&s.cfg.chunker) {
        rec.excluded = Some("not_cli_expressible".into());
        return Ok(());
    }
    let mut e = expectations(s);
    normalise_block_dev(s, &mut e);
    if e.collision {
        rec.excluded = Some("collision_guard".into());
        return Ok(());
    }
    let hook = c.fault.as_ref().map(|f| l2::Hook { fail: vec![f.clone()], ..Default::default() });
    let o = execute(prop, c, &e, hook, None)?;
    let dir = worker_dir(prop);
    let mut not_judged: Option<&'static str> = None;
    let mut output_differs = false;
    let r = (|| -> Result<(), String> {
        if o.run.timed_out {
            return Err(format!("[timeout] bita clone: {}", o.run.describe()));
        }
        // whether the clone succeeds and what it leaves in the output is what C02 / C03 (and C01, C05) are about; the
        // checks that observe reads or writes (C06, C13) judge their own oracle only
        let judges_output = !matches!(prop, "C06" | "C13");
        if !o.run.ok() {
            if c.fault.is_some() {
                not_judged = Some("clone_failed_under_the_injected_fault");
                return Ok(());
            }
            if o.seed_aliases_output {
                // a seed that is being overwritten while it is read need not be usable (a seed file that GROWS after the
                // chunker saw its end even panics the scan today - DESIGN section 7, last observation, and 8.2 item 5); C02 speaks about clones that report success
                not_judged = Some("clone_failed_with_a_seed_that_is_the_output_file_itself");
                return Ok(());
            }
            if judges_output {
                return Err(format!("bita clone failed: {}", o.run.describe()));
            }
            not_judged = Some("clone_failed_(judged_by_C01_C02_C03_not_here)");
            return Ok(());
        }
        let out = o.output.as_ref().ok_or("bita clone exit 0 but no output file")?;
        match check_final_output(s, &e, out) {
            Err(m) if judges_output => return Err(m),
            Err(_) => output_differs = true,
            Ok(()) => {}
        }
        match prop {
            "C06" => check_l2_reads(&e, &o, c.http)?,
            "C13" => check_l2_writes(&e, &o)?,
            _ => {}
        }
        Ok(())
    })();
    clean_dir(&dir);
    r?;
    if let Some(why) = not_judged {
        rec.excluded = Some(why.into());
        return Ok(());
    }
    rec.class_if(output_differs, "output_differs_from_source_(recorded_only)");
    classify_scenario(rec, s, &e);
    rec.level = Some("L2");
    rec.class_if(c.http, "http");
    rec.class_if(o.seed_pipe_used, "seed_file_is_a_named_pipe");
    rec.class_if(o.seed_aliases_output, "a_seed_is_the_output_file_itself_(path_or_hard_link)");
    rec.class_if(c.fault.is_some(), "clone_succeeded_with_an_injected_fault_(or_the_fault_was_never_reached)");
    rec.class_if(c.stdin_seed.map(|i| (i as usize) < e.seeds.len()).unwrap_or(false), "stdin_seed");
    nontrivial(s, &e, rec);
    Ok(())
}

pub fn run_l2_variant(cx: &mut WorkerCtx, prop: &'static str, total: u64, base: BoxedStrategy<Scenario>, nontrivial: impl Fn(&Scenario, &Expect, &mut CaseRec)) {
    cx.run_prop("l2", total, l2scen_strategy(base), |c, rec| l2_scenario(prop, c, rec, &nontrivial));
    let dir = worker_dir(prop);
    let _ = std::fs::remove_dir_all(dir);
}

pub fn replay_l2(prop: &str, case: &Value, rec: &mut CaseRec) -> Result<(), String> {
    let c: L2Scen = serde_json::from_value(case.clone()).map_err(|e| e.to_string())?;
    for _ in 0..3 {
        l2_scenario(prop, &c, rec, &|_, _, _| {})?;
    }
    Ok(())
}
