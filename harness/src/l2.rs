//! Level L2: run the real `bita` binary built from /repo as a sub-process, observed from outside.
#![allow(dead_code)]

use crate::gen::{Algo, ArchCfg, ChunkerCfg};
use proptest::prelude::*;
use serde::{Deserialize, Serialize};
use std::io::{Read, Write};
use std::path::{Path, PathBuf};
use std::process::{Command, Stdio};
use std::time::Duration;

pub fn bita_bin() -> PathBuf {
    PathBuf::from(std::env::var("BITA_BIN").unwrap_or_else(|_| format!("{}/target/cli/debug/bita", crate::engine::verif_root())))
}
pub fn bita_hook_bin() -> PathBuf {
    PathBuf::from(std::env::var("BITA_HOOK_BIN").unwrap_or_else(|_| format!("{}/target/cli-hooks/debug/bita", crate::engine::verif_root())))
}
pub fn iohook_so() -> PathBuf {
    PathBuf::from(std::env::var("IOHOOK_SO").unwrap_or_else(|_| format!("{}/target/iohook.so", crate::engine::verif_root())))
}

#[derive(Debug, Clone)]
pub struct RunOut {
    pub code: Option<i32>,
    pub signal: Option<i32>,
    pub stdout: Vec<u8>,
    pub stderr: Vec<u8>,
    pub timed_out: bool,
    /// number of -v flags the run was given (see `derived_verbosity`)
    pub verbosity: u8,
    /// number of CPUs the process was confined to (0 = not confined)
    pub cpus: u8,
}
impl RunOut {
    pub fn ok(&self) -> bool {
        self.code == Some(0)
    }
    pub fn panicked(&self) -> bool {
        self.code == Some(101) || self.signal == Some(libc::SIGABRT) || self.signal == Some(libc::SIGSEGV) || self.signal == Some(libc::SIGILL)
    }
    pub fn describe(&self) -> String {
        let tail = |b: &[u8]| {
            let s = String::from_utf8_lossy(b);
            let lines: Vec<&str> = s.lines().collect();
            lines[lines.len().saturating_sub(4)..].join(" | ")
        };
        format!(
            "exit={:?} signal={:?} timed_out={} verbosity={} cpus={} stderr=[{}] stdout_tail=[{}]",
            self.code,
            self.signal,
            self.timed_out,
            self.verbosity,
            self.cpus,
            tail(&self.stderr),
            tail(&self.stdout)
        )
    }
}

#[derive(Default, Clone)]
pub struct RunSpec {
    pub hook_build: bool,
    pub args: Vec<String>,
    pub stdin: Option<Vec<u8>>,
    pub env: Vec<(String, String)>,
    pub shim: bool,
    pub timeout_s: u64,
    pub strace_out: Option<PathBuf>,
}

/// The global `-v` flag is one more dimension of every clone / compress run: it must not change what the command
/// does. It is derived from the case (engine::case_salt) and the arguments (URLs excluded: their port differs between
/// runs), so a replay uses the same value: 1 run in 8 gets `-v` (debug), 1 in 16 `-vv` (trace). `bita info` is left
/// alone (its stdout is parsed).
pub fn derived_verbosity(args: &[String]) -> u8 {
    if !matches!(args.first().map(|s| s.as_str()), Some("clone") | Some("compress")) || std::env::var("BVERIF_NO_VERBOSITY").is_ok() {
        return 0;
    }
    let salt = crate::engine::case_salt().to_le_bytes();
    let mut parts: Vec<&[u8]> = args.iter().filter(|a| !a.starts_with("http://")).map(|a| a.as_bytes()).collect();
    parts.push(&salt);
    match crate::engine::blake2_64(&parts) % 16 {
        13 | 14 => 1,
        15 => 2,
        _ => 0,
    }
}

pub fn run_bita(cwd: &Path, spec: &RunSpec) -> RunOut {
    let bin = if spec.hook_build { bita_hook_bin() } else { bita_bin() };
    let mut cmd = if let Some(so) = &spec.strace_out {
        let mut c = Command::new("strace");
        c.arg("-f")
            .arg("-qq")
            .arg("-y")
            .arg("-e")
            .arg("trace=open,openat,openat2,creat,unlink,unlinkat,rename,renameat,renameat2,mkdir,mkdirat,link,linkat,symlink,symlinkat,truncate,ftruncate,rmdir,mknod,mknodat")
            .arg("-o")
            .arg(so)
            .arg(&bin);
        c
    } else {
        Command::new(&bin)
    };
    let verbosity = derived_verbosity(&spec.args);
    for _ in 0..verbosity {
        cmd.arg("-v");
    }
    // two more options that must not change what an HTTP clone does: a generous --http-timeout and a custom header
    let mut args = spec.args.clone();
    if args.first().map(|s| s.as_str()) == Some("clone") && args.iter().any(|a| a.starts_with("http://")) && std::env::var("BVERIF_NO_VERBOSITY").is_err() {
        let salt = crate::engine::case_salt().to_le_bytes();
        let mut parts: Vec<&[u8]> = args.iter().filter(|a| !a.starts_with("http://")).map(|a| a.as_bytes()).collect();
        parts.push(&salt);
        let h = crate::engine::blake2_64(&parts) >> 8;
        if h % 8 == 0 && !args.iter().any(|a| a == "--http-timeout") {
            args.insert(1, "--http-timeout".into());
            args.insert(2, "90".into());
        }
        if (h >> 8) % 8 == 0 && !args.iter().any(|a| a == "--http-header") {
            args.insert(1, "--http-header".into());
            args.insert(2, "X-Verif-Case: a b=c".into());
        }
        // a retry budget changes nothing unless a transfer fails, and then only how often a range is asked for again:
        // 1 HTTP clone in 4 gets --http-retry-count 1..3 (the checks that script transfer failures set it themselves)
        if (h >> 16) % 4 == 0 && !args.iter().any(|a| a == "--http-retry-count") {
            args.insert(1, "--http-retry-count".into());
            args.insert(2, (1 + (h >> 20) % 3).to_string());
            if !args.iter().any(|a| a == "--http-retry-delay") {
                args.insert(3, "--http-retry-delay".into());
                args.insert(4, "0".into());
            }
        }
    }
    // --buffered-chunks has a default (CPU cores x 2) that the generated configurations never use: leave the option out in
    // 1 run of 8 (not with memory-hungry compression levels: the default would run 32 encoders at once)
    if matches!(args.first().map(|s| s.as_str()), Some("clone") | Some("compress")) && std::env::var("BVERIF_NO_VERBOSITY").is_err() {
        let level: u32 = args.iter().position(|a| a == "--compression-level").and_then(|i| args.get(i + 1)).and_then(|v| v.parse().ok()).unwrap_or(6);
        let salt = crate::engine::case_salt().to_le_bytes();
        let mut parts: Vec<&[u8]> = args.iter().filter(|a| !a.starts_with("http://")).map(|a| a.as_bytes()).collect();
        parts.push(&salt);
        parts.push(b"buffered-chunks");
        if level <= 6 && crate::engine::blake2_64(&parts) % 8 == 0 {
            if let Some(i) = args.iter().position(|a| a == "--buffered-chunks") {
                if i + 1 < args.len() {
                    args.drain(i..i + 2);
                }
            }
        }
    }
    // the number of CPUs the process sees (default --buffered-chunks, tokio worker threads) is an environment dimension:
    // 1 clone/compress run in 8 is confined to one CPU, 1 in 8 to three
    let mut cpus = 0u8;
    if matches!(args.first().map(|s| s.as_str()), Some("clone") | Some("compress")) && std::env::var("BVERIF_NO_VERBOSITY").is_err() {
        let salt = crate::engine::case_salt().to_le_bytes();
        let mut parts: Vec<&[u8]> = spec.args.iter().filter(|a| !a.starts_with("http://")).map(|a| a.as_bytes()).collect();
        parts.push(&salt);
        parts.push(b"cpus");
        cpus = match crate::engine::blake2_64(&parts) % 8 {
            0 => 1,
            1 => 3,
            _ => 0,
        };
        if cpus > 0 {
            use std::os::unix::process::CommandExt;
            let n = cpus as usize;
            // which CPUs is irrelevant to bita (it sees their number); spread the confined runs of the 16 workers
            let total = std::thread::available_parallelism().map(|x| x.get()).unwrap_or(1);
            let base = if total > n { std::process::id() as usize % (total - n + 1) } else { 0 };
            unsafe {
                cmd.pre_exec(move || {
                    let mut set: libc::cpu_set_t = std::mem::zeroed();
                    for c in base..base + n {
                        libc::CPU_SET(c, &mut set);
                    }
                    // best effort: if the CPUs are not available to this process the run simply stays unconfined
                    libc::sched_setaffinity(0, std::mem::size_of::<libc::cpu_set_t>(), &set);
                    Ok(())
                });
            }
        }
    }
    cmd.args(&args).current_dir(cwd);
    cmd.env("RUST_BACKTRACE", "0");
    cmd.env_remove("LD_PRELOAD");
    for k in ["IOHOOK_LOG", "IOHOOK_WATCH", "IOHOOK_DELAY", "IOHOOK_FAIL", "IOHOOK_SHORT", "IOHOOK_KILL", "BITA_VERIF_FORCE_BLOCKDEV"] {
        cmd.env_remove(k);
    }
    cmd.env("TMPDIR", cwd);
    if spec.shim {
        cmd.env("LD_PRELOAD", iohook_so());
    }
    for (k, v) in &spec.env {
        cmd.env(k, v);
    }
    cmd.stdin(if spec.stdin.is_some() { Stdio::piped() } else { Stdio::null() });
    cmd.stdout(Stdio::piped()).stderr(Stdio::piped());
    let mut child = cmd.spawn().expect("spawn bita");
    let pid = child.id() as i32;
    let stdin_thread = spec.stdin.clone().map(|data| {
        let mut si = child.stdin.take().unwrap();
        std::thread::spawn(move || {
            let _ = si.write_all(&data);
        })
    });
    let mut so = child.stdout.take().unwrap();
    let mut se = child.stderr.take().unwrap();
    let t_out = std::thread::spawn(move || {
        let mut b = Vec::new();
        let _ = so.read_to_end(&mut b);
        b
    });
    let t_err = std::thread::spawn(move || {
        let mut b = Vec::new();
        let _ = se.read_to_end(&mut b);
        b
    });
    let (tx, rx) = std::sync::mpsc::channel::<()>();
    let timeout = Duration::from_secs(if spec.timeout_s == 0 { 120 } else { spec.timeout_s });
    let wd = std::thread::spawn(move || match rx.recv_timeout(timeout) {
        Err(std::sync::mpsc::RecvTimeoutError::Timeout) => {
            unsafe {
                libc::kill(pid, libc::SIGKILL);
            }
            true
        }
        _ => false,
    });
    let status = child.wait().expect("wait bita");
    let _ = tx.send(());
    let timed_out = wd.join().unwrap_or(false);
    if let Some(t) = stdin_thread {
        let _ = t.join();
    }
    let stdout = t_out.join().unwrap_or_default();
    let stderr = t_err.join().unwrap_or_default();
    use std::os::unix::process::ExitStatusExt;
    RunOut { code: status.code(), signal: status.signal(), stdout, stderr, timed_out, verbosity, cpus }
}

// ---------------------------------------------------------------------------------------
// CLI argument builders

/// Chunker configs expressible on the command line: avg = 2^(bits+1), min <= avg <= max.
pub fn cli_chunker_strategy() -> impl Strategy<Value = ChunkerCfg> {
    let rolling = (
        prop_oneof![Just(Algo::RollSum), Just(Algo::BuzHash)],
        prop_oneof![4 => 1u32..=5, 2 => 5u32..=9],
        any::<u16>(),
        any::<u16>(),
        any::<u16>(),
    )
        .prop_map(|(algo, bits, minpick, maxpick, wpick)| {
            let avg = 1usize << (bits + 1);
            let min = crate::gen::idx(minpick, avg + 1);
            let max = avg + crate::gen::idx(maxpick, 700);
            let window = 1 + crate::gen::idx(wpick, max.min(128));
            ChunkerCfg { algo, bits, min, max, window }
        });
    prop_oneof![
        1 => (1usize..=300).prop_map(|n| ChunkerCfg { algo: Algo::FixedSize, bits: 0, min: 0, max: n, window: 0 }),
        5 => rolling,
    ]
}

pub fn cli_expressible(c: &ChunkerCfg) -> bool {
    match c.algo {
        Algo::FixedSize => c.max >= 1,
        _ => {
            let avg = 1usize << (c.bits + 1);
            c.bits >= 1 && c.bits <= 28 && c.min <= avg && avg <= c.max && c.window >= 1 && c.window <= c.max
        }
    }
}

pub fn chunker_cli_args(c: &ChunkerCfg) -> Vec<String> {
    match c.algo {
        Algo::FixedSize => vec!["--fixed-size".into(), c.max.to_string()],
        _ => vec![
            "--hash-chunking".into(),
            match c.algo {
                Algo::RollSum => "RollSum".into(),
                _ => "BuzHash".into(),
            },
            "--avg-chunk-size".into(),
            (1usize << (c.bits + 1)).to_string(),
            "--min-chunk-size".into(),
            c.min.to_string(),
            "--max-chunk-size".into(),
            c.max.to_string(),
            "--rolling-window-size".into(),
            c.window.to_string(),
        ],
    }
}

pub fn compress_args(cfg: &ArchCfg, input: Option<&str>, output: &str, force: bool) -> Vec<String> {
    let mut a: Vec<String> = vec!["compress".into()];
    if let Some(i) = input {
        a.push("-i".into());
        a.push(i.into());
    }
    a.extend(chunker_cli_args(&cfg.chunker));
    a.extend(cfg.comp.cli_args());
    a.push("--hash-length".into());
    a.push(cfg.hash_len.to_string());
    a.push("--buffered-chunks".into());
    a.push(cfg.buffers.to_string());
    if force {
        a.push("--force-create".into());
    }
    a.push(output.into());
    a
}

// ---------------------------------------------------------------------------------------
// iohook scripting and log parsing

#[derive(Clone, Debug, Default, Serialize, Deserialize, PartialEq)]
pub struct Hook {
    pub watch: Vec<String>,
    pub delay: Vec<(String, String, u32, Option<u32>)>, // op, suffix, usec, k
    pub fail: Vec<(String, String, u32, i32)>,          // op, suffix, k, errno
    pub short: Vec<(String, String, u32, u32)>,         // op, suffix, k, bytes
    pub kill: Vec<(String, String, u32, i64)>,          // op, suffix, k, prefix (-1 = before)
}
impl Hook {
    pub fn env(&self, log: &Path) -> Vec<(String, String)> {
        let mut e = vec![("IOHOOK_LOG".to_string(), log.display().to_string())];
        if !self.watch.is_empty() {
            e.push(("IOHOOK_WATCH".into(), self.watch.join(",")));
        }
        if !self.delay.is_empty() {
            e.push((
                "IOHOOK_DELAY".into(),
                self.delay
                    .iter()
                    .map(|(op, s, us, k)| match k {
                        Some(k) => format!("{}:{}:{}:{}", op, s, us, k),
                        None => format!("{}:{}:{}", op, s, us),
                    })
                    .collect::<Vec<_>>()
                    .join(";"),
            ));
        }
        if !self.fail.is_empty() {
            e.push(("IOHOOK_FAIL".into(), self.fail.iter().map(|(op, s, k, en)| format!("{}:{}:{}:{}", op, s, k, en)).collect::<Vec<_>>().join(";")));
        }
        if !self.short.is_empty() {
            e.push(("IOHOOK_SHORT".into(), self.short.iter().map(|(op, s, k, b)| format!("{}:{}:{}:{}", op, s, k, b)).collect::<Vec<_>>().join(";")));
        }
        if !self.kill.is_empty() {
            e.push(("IOHOOK_KILL".into(), self.kill.iter().map(|(op, s, k, p)| format!("{}:{}:{}:{}", op, s, k, p)).collect::<Vec<_>>().join(";")));
        }
        e
    }
}

#[derive(Clone, Debug, PartialEq, Eq)]
pub struct HookEvent {
    pub op: String,
    pub path: String,
    pub off: i64,
    pub len: i64,
    pub ret: i64,
    pub fnv: u64,
}
pub fn parse_hook_log(p: &Path) -> Vec<HookEvent> {
    let Ok(s) = std::fs::read_to_string(p) else { return vec![] };
    s.lines()
        .filter_map(|l| {
            let f: Vec<&str> = l.split(' ').collect();
            if f.len() != 6 {
                return None;
            }
            Some(HookEvent {
                op: f[0].to_string(),
                path: f[1].to_string(),
                off: f[2].parse().ok()?,
                len: f[3].parse().ok()?,
                ret: f[4].parse().ok()?,
                fnv: u64::from_str_radix(f[5], 16).ok()?,
            })
        })
        .collect()
}
pub fn fnv1a(b: &[u8]) -> u64 {
    let mut h = 1469598103934665603u64;
    for x in b {
        h ^= *x as u64;
        h = h.wrapping_mul(1099511628211);
    }
    h
}

/// Logical writes of a path from the hook log: a write that does not start where the previous one
/// ended (or follows an lseek) starts a new logical write.
pub fn logical_writes(events: &[HookEvent], suffix: &str) -> Vec<(u64, u64)> {
    let mut out: Vec<(u64, u64)> = vec![];
    let mut seeked = true;
    for e in events.iter().filter(|e| e.path.ends_with(suffix)) {
        match e.op.as_str() {
            "lseek" => seeked = true,
            "write" if e.ret > 0 => {
                let off = e.off as u64;
                let n = e.ret as u64;
                match out.last_mut() {
                    Some(last) if !seeked && last.0 + last.1 == off => last.1 += n,
                    _ => out.push((off, n)),
                }
                seeked = false;
            }
            _ => {}
        }
    }
    out
}

pub fn write_file(p: &Path, data: &[u8]) {
    std::fs::write(p, data).unwrap_or_else(|e| panic!("harness: write {}: {}", p.display(), e));
}


// ---------------------------------------------------------------------------------------
// named pipes as input files

/// A named pipe at `path` fed with `data` by a thread of the harness: a file the command under test can only read
/// sequentially and whose metadata says nothing about its length (st_size 0).
pub struct FifoFeeder {
    path: PathBuf,
    thread: Option<std::thread::JoinHandle<()>>,
}
impl FifoFeeder {
    pub fn start(path: &Path, data: Vec<u8>) -> Result<FifoFeeder, String> {
        let _ = std::fs::remove_file(path);
        let cpath = std::ffi::CString::new(path.display().to_string()).unwrap();
        if unsafe { libc::mkfifo(cpath.as_ptr(), 0o600) } != 0 {
            return Err("harness: mkfifo failed".into());
        }
        // the writer's open() blocks until the command opens the pipe for reading; closing it gives the reader end-of-file.
        // (If the command never opens it, `finish` does, so the thread always ends.)
        let p = path.to_path_buf();
        let thread = std::thread::spawn(move || {
            if let Ok(mut f) = std::fs::OpenOptions::new().write(true).open(&p) {
                let _ = f.write_all(&data);
            }
        });
        Ok(FifoFeeder { path: path.to_path_buf(), thread: Some(thread) })
    }
    /// call after the command has exited: lets the writer finish (draining what the command did not read) and removes the pipe
    pub fn finish(self) {
        drop(self)
    }
}
impl Drop for FifoFeeder {
    fn drop(&mut self) {
        use std::os::unix::fs::OpenOptionsExt;
        if let Some(t) = self.thread.take() {
            if let Ok(mut f) = std::fs::OpenOptions::new().read(true).custom_flags(libc::O_NONBLOCK).open(&self.path) {
                let mut sink = vec![0u8; 1 << 16];
                let t0 = std::time::Instant::now();
                while !t.is_finished() && t0.elapsed().as_secs() < 20 {
                    if !matches!(f.read(&mut sink), Ok(n) if n > 0) {
                        std::thread::sleep(Duration::from_millis(2));
                    }
                }
            }
            if t.is_finished() {
                let _ = t.join();
            }
        }
        let _ = std::fs::remove_file(&self.path);
    }
}
