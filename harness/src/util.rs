//! Small helpers shared by the checks.
#![allow(dead_code)]

use std::future::Future;
use std::pin::Pin;
use std::sync::Arc;
use std::task::{Context, Poll, Wake, Waker};

struct Noop;
impl Wake for Noop {
    fn wake(self: Arc<Self>) {}
}

/// Minimal executor for futures that only ever wake themselves (our in-memory doubles).
pub fn block_on_simple<F: Future>(f: F) -> F::Output {
    let waker = Waker::from(Arc::new(Noop));
    let mut cx = Context::from_waker(&waker);
    let mut f = Box::pin(f);
    let mut spins = 0u64;
    loop {
        match Pin::new(&mut f).poll(&mut cx) {
            Poll::Ready(v) => return v,
            Poll::Pending => {
                spins += 1;
                if spins > 50_000_000 {
                    panic!("block_on_simple: future stays pending (harness bug)");
                }
            }
        }
    }
}

pub fn hex(b: &[u8]) -> String {
    hex::encode(b)
}
pub fn unhex(s: &str) -> Vec<u8> {
    hex::decode(s).expect("hex")
}

pub fn blake2b512(data: &[u8]) -> Vec<u8> {
    use blake2::{Blake2b512, Digest};
    let mut h = Blake2b512::new();
    h.update(data);
    h.finalize().to_vec()
}

pub fn first_diff(a: &[u8], b: &[u8]) -> Option<usize> {
    let n = a.len().min(b.len());
    for i in 0..n {
        if a[i] != b[i] {
            return Some(i);
        }
    }
    if a.len() != b.len() {
        Some(n)
    } else {
        None
    }
}

pub fn describe_diff(what: &str, got: &[u8], want: &[u8]) -> String {
    match first_diff(got, want) {
        None => format!("{}: equal", what),
        Some(i) => format!(
            "{}: differs at byte {} (got len {}, want len {}; got {:?} want {:?})",
            what,
            i,
            got.len(),
            want.len(),
            &got[i.min(got.len())..(i + 8).min(got.len())],
            &want[i.min(want.len())..(i + 8).min(want.len())]
        ),
    }
}

thread_local! {
    static RT: tokio::runtime::Runtime = tokio::runtime::Builder::new_current_thread()
        .max_blocking_threads(8)
        .enable_all()
        .build()
        .unwrap();
}
/// Block on a future using this thread's shared current-thread tokio runtime.
pub fn block_on<F: Future>(f: F) -> F::Output {
    RT.with(|rt| rt.block_on(f))
}
