//! Shared generators: source byte strings (segment specs), chunker / archive configurations,
//! edit scripts for related streams, read-fragmentation scripts.
#![allow(dead_code)]

use proptest::prelude::*;
use serde::{Deserialize, Serialize};

// ---------------------------------------------------------------------------------------
// deterministic expansion PRNG (a pure function of values that proptest generated)

#[derive(Clone)]
pub struct SplitMix(pub u64);
impl SplitMix {
    pub fn next(&mut self) -> u64 {
        self.0 = self.0.wrapping_add(0x9E37_79B9_7F4A_7C15);
        let mut z = self.0;
        z = (z ^ (z >> 30)).wrapping_mul(0xBF58_476D_1CE4_E5B9);
        z = (z ^ (z >> 27)).wrapping_mul(0x94D0_49BB_1331_11EB);
        z ^ (z >> 31)
    }
    pub fn fill(&mut self, out: &mut Vec<u8>, n: usize) {
        let mut left = n;
        while left >= 8 {
            out.extend_from_slice(&self.next().to_le_bytes());
            left -= 8;
        }
        if left > 0 {
            let b = self.next().to_le_bytes();
            out.extend_from_slice(&b[..left]);
        }
    }
    pub fn below(&mut self, n: u64) -> u64 {
        if n == 0 {
            0
        } else {
            self.next() % n
        }
    }
}

/// monotone index mapping (shrinks towards 0)
pub fn idx(i: u16, len: usize) -> usize {
    if len == 0 {
        0
    } else {
        ((i as usize) * len) >> 16
    }
}

// ---------------------------------------------------------------------------------------
// source specs

#[derive(Clone, Debug, Serialize, Deserialize, PartialEq)]
pub enum Seg {
    /// n pseudo-random bytes from `seed`
    Random { n: u32, seed: u32 },
    /// n copies of byte b
    Const { b: u8, n: u32 },
    /// pattern repeated up to n bytes
    Repeat { pat: Vec<u8>, n: u32 },
    /// literal bytes
    Lit { bytes: Vec<u8> },
    /// copy of `len` bytes starting at fraction `at`/65536 of what has been produced so far
    CopyOf { at: u16, len: u32 },
    /// low-entropy text-like bytes (compressible, cuts often)
    Text { n: u32, seed: u32 },
    /// random bytes over a tiny alphabet (many repeated windows)
    Small { n: u32, seed: u32, alpha: u8 },
}

pub type SourceSpec = Vec<Seg>;

pub fn expand(spec: &SourceSpec) -> Vec<u8> {
    let mut out = Vec::new();
    for s in spec {
        match s {
            Seg::Random { n, seed } => SplitMix(*seed as u64 ^ 0xA5A5_0000).fill(&mut out, *n as usize),
            Seg::Const { b, n } => out.extend(std::iter::repeat(*b).take(*n as usize)),
            Seg::Repeat { pat, n } => {
                if !pat.is_empty() {
                    out.extend(pat.iter().cycle().take(*n as usize));
                }
            }
            Seg::Lit { bytes } => out.extend_from_slice(bytes),
            Seg::CopyOf { at, len } => {
                if !out.is_empty() {
                    let start = idx(*at, out.len());
                    let end = (start + *len as usize).min(out.len());
                    let piece = out[start..end].to_vec();
                    out.extend_from_slice(&piece);
                }
            }
            Seg::Text { n, seed } => {
                const WORDS: &[&str] = &[
                    "the ", "chunk ", "archive ", "of ", "and ", "seed ", "0000", "\n", "bita ", "x", "data ", "== ", "clone",
                ];
                let mut r = SplitMix(*seed as u64 ^ 0x7777);
                let start = out.len();
                while out.len() - start < *n as usize {
                    let w = WORDS[r.below(WORDS.len() as u64) as usize];
                    out.extend_from_slice(w.as_bytes());
                }
                out.truncate(start + *n as usize);
            }
            Seg::Small { n, seed, alpha } => {
                let mut r = SplitMix(*seed as u64 ^ 0x3131);
                let a = (*alpha).max(1) as u64;
                for _ in 0..*n {
                    out.push(r.below(a) as u8);
                }
            }
        }
    }
    out
}

fn seg_strategy(max_seg: u32) -> impl Strategy<Value = Seg> {
    let n = move || {
        prop_oneof![
            4 => 0u32..=64.min(max_seg),
            4 => 0u32..=max_seg.min(1024),
            2 => 0u32..=max_seg,
        ]
    };
    prop_oneof![
        5 => (n(), any::<u32>()).prop_map(|(n, seed)| Seg::Random { n, seed }),
        2 => (prop_oneof![Just(0u8), Just(0xffu8), any::<u8>()], n()).prop_map(|(b, n)| Seg::Const { b, n }),
        2 => n().prop_map(|n| Seg::Const { b: 0, n }),
        1 => (prop::collection::vec(any::<u8>(), 1..12), n()).prop_map(|(pat, n)| Seg::Repeat { pat, n }),
        1 => prop::collection::vec(any::<u8>(), 0..24).prop_map(|bytes| Seg::Lit { bytes }),
        3 => (any::<u16>(), n()).prop_map(|(at, len)| Seg::CopyOf { at, len }),
        2 => (n(), any::<u32>()).prop_map(|(n, seed)| Seg::Text { n, seed }),
        2 => (n(), any::<u32>(), 1u8..5).prop_map(|(n, seed, alpha)| Seg::Small { n, seed, alpha }),
    ]
}

/// General source: 0..max_segs segments of up to max_seg bytes each.
pub fn source_strategy(max_segs: usize, max_seg: u32) -> impl Strategy<Value = SourceSpec> {
    prop::collection::vec(seg_strategy(max_seg), 0..=max_segs)
}

/// Zero-run heavy sources (the class on which BuzHash's repeat short-cut matters).
pub fn zero_heavy_strategy(max_segs: usize, max_seg: u32) -> impl Strategy<Value = SourceSpec> {
    let seg = prop_oneof![
        4 => (0u32..=max_seg).prop_map(|n| Seg::Const { b: 0, n }),
        2 => (0u32..=40, any::<u32>()).prop_map(|(n, seed)| Seg::Random { n, seed }),
        1 => (1u8..=255, 0u32..=max_seg).prop_map(|(b, n)| Seg::Const { b, n }),
        1 => (0u32..=max_seg.min(300), any::<u32>(), 1u8..3).prop_map(|(n, seed, alpha)| Seg::Small { n, seed, alpha }),
        1 => prop::collection::vec(prop_oneof![Just(0u8), any::<u8>()], 0..8).prop_map(|bytes| Seg::Lit { bytes }),
    ];
    prop::collection::vec(seg, 0..=max_segs)
}

// ---------------------------------------------------------------------------------------
// configurations

#[derive(Clone, Copy, Debug, Serialize, Deserialize, PartialEq, Eq, Hash)]
pub enum Algo {
    FixedSize,
    RollSum,
    BuzHash,
}

#[derive(Clone, Copy, Debug, Serialize, Deserialize, PartialEq, Eq, Hash)]
pub struct ChunkerCfg {
    pub algo: Algo,
    pub bits: u32,
    pub min: usize,
    pub max: usize, // FixedSize: the chunk size
    pub window: usize,
}

impl ChunkerCfg {
    pub fn to_bitar(&self) -> bitar::chunker::Config {
        use bitar::chunker::{Config, FilterBits, FilterConfig};
        let fc = FilterConfig {
            filter_bits: FilterBits::from_bits(self.bits),
            min_chunk_size: self.min,
            max_chunk_size: self.max,
            window_size: self.window,
        };
        match self.algo {
            Algo::FixedSize => Config::FixedSize(self.max),
            Algo::RollSum => Config::RollSum(fc),
            Algo::BuzHash => Config::BuzHash(fc),
        }
    }
    pub fn from_bitar(c: &bitar::chunker::Config) -> ChunkerCfg {
        use bitar::chunker::Config;
        match c {
            Config::FixedSize(n) => ChunkerCfg { algo: Algo::FixedSize, bits: 0, min: 0, max: *n, window: 0 },
            Config::RollSum(f) => ChunkerCfg {
                algo: Algo::RollSum,
                bits: f.filter_bits.bits(),
                min: f.min_chunk_size,
                max: f.max_chunk_size,
                window: f.window_size,
            },
            Config::BuzHash(f) => ChunkerCfg {
                algo: Algo::BuzHash,
                bits: f.filter_bits.bits(),
                min: f.min_chunk_size,
                max: f.max_chunk_size,
                window: f.window_size,
            },
        }
    }
    /// valid per the property text: FixedSize n>=1; window>=1, min<=max, window<=max, bits 1..24
    pub fn is_valid(&self) -> bool {
        match self.algo {
            Algo::FixedSize => self.max >= 1,
            _ => self.window >= 1 && self.min <= self.max && self.window <= self.max && self.max >= 1 && (1..=24).contains(&self.bits),
        }
    }
}

/// Small parameters: many chunks, min/max cuts and duplicates already on small inputs.
pub fn small_chunker_strategy() -> impl Strategy<Value = ChunkerCfg> {
    let rolling = (
        prop_oneof![Just(Algo::RollSum), Just(Algo::BuzHash)],
        prop_oneof![4 => 1u32..=6, 2 => 6u32..=10, 1 => 10u32..=24],
        prop_oneof![3 => 1usize..=16, 2 => 1usize..=64, 1 => 1usize..=256],
        0usize..=3,   // min class
        any::<u16>(), // min pick
        any::<u16>(), // max pick
    )
        .prop_map(|(algo, bits, window, minclass, minpick, maxpick)| {
            // max >= window, chosen among small sizes
            let max = window + idx(maxpick, 600);
            let max = max.max(1);
            let min = match minclass {
                0 => 0,
                1 => idx(minpick, window.min(max) + 1),            // min <= window
                2 => window.min(max),                               // min == window (if possible)
                _ => window.min(max) + idx(minpick, max - window.min(max) + 1), // window <= min <= max
            };
            ChunkerCfg { algo, bits, min: min.min(max), max, window }
        });
    prop_oneof![
        1 => (1usize..=300).prop_map(|n| ChunkerCfg { algo: Algo::FixedSize, bits: 0, min: 0, max: n, window: 0 }),
        5 => rolling,
    ]
}

/// Larger parameter space incl. CLI defaults and chunks above the 1 MiB refill buffer.
pub fn large_chunker_strategy() -> impl Strategy<Value = ChunkerCfg> {
    prop_oneof![
        2 => Just(ChunkerCfg { algo: Algo::RollSum, bits: 15, min: 16 * 1024, max: 16 * 1024 * 1024, window: 64 }),
        2 => Just(ChunkerCfg { algo: Algo::BuzHash, bits: 15, min: 16 * 1024, max: 16 * 1024 * 1024, window: 16 }),
        1 => (1usize..=3_000_000).prop_map(|n| ChunkerCfg { algo: Algo::FixedSize, bits: 0, min: 0, max: n, window: 0 }),
        // windows far above the usual 16..64 bytes (a valid configuration: window <= max)
        2 => (prop_oneof![Just(Algo::RollSum), Just(Algo::BuzHash)], 6u32..=14, prop_oneof![Just(4096usize), Just(11770), Just(11771), Just(16384), Just(70_000), 257usize..=100_000], 0usize..=50_000, 0usize..=300_000)
            .prop_map(|(algo, bits, window, min, extra)| {
                let max = (min + extra).max(window);
                ChunkerCfg { algo, bits, min, max, window }
            }),
        4 => (
            prop_oneof![Just(Algo::RollSum), Just(Algo::BuzHash)],
            8u32..=22,
            1usize..=256,
            0usize..=200_000,
            0usize..=2_500_000,
        )
            .prop_map(|(algo, bits, window, min, extra)| {
                let max = (min + extra).max(window).max(1);
                ChunkerCfg { algo, bits, min, max, window }
            }),
    ]
}

#[derive(Clone, Copy, Debug, Serialize, Deserialize, PartialEq, Eq, Hash)]
pub enum Comp {
    None,
    Brotli(u32),
    Zstd(u32),
    Lzma(u32),
}
impl Comp {
    pub fn to_bitar(&self) -> Option<bitar::Compression> {
        match self {
            Comp::None => None,
            Comp::Brotli(l) => Some(bitar::Compression::brotli(*l).unwrap()),
            Comp::Zstd(l) => Some(bitar::Compression::zstd(*l).unwrap()),
            Comp::Lzma(l) => Some(bitar::Compression::lzma(*l).unwrap()),
        }
    }
    pub fn cli_args(&self) -> Vec<String> {
        let (t, l) = match self {
            Comp::None => ("none", 6),
            Comp::Brotli(l) => ("brotli", *l),
            Comp::Zstd(l) => ("zstd", *l),
            Comp::Lzma(l) => ("lzma", *l),
        };
        vec!["--compression".into(), t.into(), "--compression-level".into(), l.to_string()]
    }
    /// heavy encoders (memory): lzma >= 7, brotli >= 10, zstd >= 20
    pub fn heavy(&self) -> bool {
        matches!(self, Comp::Lzma(l) if *l >= 6) || matches!(self, Comp::Zstd(l) if *l >= 16)
    }
}

pub fn comp_strategy() -> impl Strategy<Value = Comp> {
    prop_oneof![
        3 => Just(Comp::None),
        4 => (1u32..=11).prop_map(Comp::Brotli),
        3 => (1u32..=15).prop_map(Comp::Zstd),
        2 => (1u32..=5).prop_map(Comp::Lzma),
    ]
}
/// levels whose encoders allocate (and clear) hundreds of MiB per chunk: only used with few chunks
pub fn heavy_comp_strategy() -> impl Strategy<Value = Comp> {
    prop_oneof![(16u32..=22).prop_map(Comp::Zstd), (6u32..=9).prop_map(Comp::Lzma)]
}
/// cheap subset for checks where the codec is not the point
pub fn light_comp_strategy() -> impl Strategy<Value = Comp> {
    prop_oneof![
        3 => Just(Comp::None),
        3 => (1u32..=6).prop_map(Comp::Brotli),
        2 => (1u32..=6).prop_map(Comp::Zstd),
        1 => (1u32..=3).prop_map(Comp::Lzma),
    ]
}

#[derive(Clone, Copy, Debug, Serialize, Deserialize, PartialEq, Eq, Hash)]
pub struct ArchCfg {
    pub chunker: ChunkerCfg,
    pub hash_len: usize,
    pub comp: Comp,
    pub buffers: usize,
}

pub fn hash_len_strategy(min: usize) -> impl Strategy<Value = usize> {
    prop_oneof![3 => Just(64usize), 2 => min..=64usize, 2 => min..=min + 4, 1 => Just(min)]
}
pub fn buffers_strategy() -> impl Strategy<Value = usize> {
    prop_oneof![Just(1usize), Just(2), Just(3), Just(8), Just(64)]
}

pub fn arch_cfg_strategy(min_hash: usize, light: bool) -> impl Strategy<Value = ArchCfg> {
    let comp = if light { light_comp_strategy().boxed() } else { comp_strategy().boxed() };
    (small_chunker_strategy(), hash_len_strategy(min_hash), comp, buffers_strategy()).prop_map(
        |(chunker, hash_len, comp, buffers)| {
            // couple memory-hungry encoder levels with low parallelism
            let buffers = if comp.heavy() { buffers.min(2) } else { buffers };
            ArchCfg { chunker, hash_len, comp, buffers }
        },
    )
}

// ---------------------------------------------------------------------------------------
// edit scripts: related streams (seeds, prior outputs)

#[derive(Clone, Debug, Serialize, Deserialize, PartialEq)]
pub enum Edit {
    Insert { at: u16, data: Seg },
    Delete { at: u16, len: u32 },
    Replace { at: u16, len: u32, seed: u32 }, // same size, other content
    Duplicate { at: u16, len: u32, to: u16 },
    Move { at: u16, len: u32, to: u16 },
    Truncate { at: u16 },
    Append { data: Seg },
    Prepend { data: Seg },
}

#[derive(Clone, Debug, Serialize, Deserialize, PartialEq)]
pub enum Related {
    /// the base stream itself
    Same,
    /// empty stream
    Empty,
    /// unrelated data
    Unrelated(SourceSpec),
    /// base with an edit script applied
    Edited(Vec<Edit>),
}

pub fn apply_edits(base: &[u8], edits: &[Edit]) -> Vec<u8> {
    let mut v = base.to_vec();
    for e in edits {
        match e {
            Edit::Insert { at, data } => {
                let p = idx(*at, v.len() + 1);
                let d = expand(&vec![data.clone()]);
                v.splice(p..p, d);
            }
            Edit::Delete { at, len } => {
                let p = idx(*at, v.len() + 1);
                let e = (p + *len as usize).min(v.len());
                v.drain(p..e);
            }
            Edit::Replace { at, len, seed } => {
                let p = idx(*at, v.len() + 1);
                let e = (p + *len as usize).min(v.len());
                let mut r = SplitMix(*seed as u64 ^ 0xEE);
                for b in &mut v[p..e] {
                    *b = r.next() as u8;
                }
            }
            Edit::Duplicate { at, len, to } => {
                let p = idx(*at, v.len() + 1);
                let e = (p + *len as usize).min(v.len());
                let piece = v[p..e].to_vec();
                let t = idx(*to, v.len() + 1);
                v.splice(t..t, piece);
            }
            Edit::Move { at, len, to } => {
                let p = idx(*at, v.len() + 1);
                let e = (p + *len as usize).min(v.len());
                let piece: Vec<u8> = v.drain(p..e).collect();
                let t = idx(*to, v.len() + 1);
                v.splice(t..t, piece);
            }
            Edit::Truncate { at } => {
                let p = idx(*at, v.len() + 1);
                v.truncate(p);
            }
            Edit::Append { data } => v.extend(expand(&vec![data.clone()])),
            Edit::Prepend { data } => {
                let d = expand(&vec![data.clone()]);
                v.splice(0..0, d);
            }
        }
    }
    v
}

pub fn related_bytes(base: &[u8], r: &Related) -> Vec<u8> {
    match r {
        Related::Same => base.to_vec(),
        Related::Empty => vec![],
        Related::Unrelated(s) => expand(s),
        Related::Edited(e) => apply_edits(base, e),
    }
}

fn small_seg() -> impl Strategy<Value = Seg> {
    prop_oneof![
        (0u32..=300, any::<u32>()).prop_map(|(n, seed)| Seg::Random { n, seed }),
        (0u32..=300).prop_map(|n| Seg::Const { b: 0, n }),
        (any::<u8>(), 0u32..=300).prop_map(|(b, n)| Seg::Const { b, n }),
    ]
}

pub fn edit_strategy(max_len: u32) -> impl Strategy<Value = Edit> {
    let len = move || prop_oneof![0u32..=32, 0u32..=max_len];
    prop_oneof![
        3 => (any::<u16>(), small_seg()).prop_map(|(at, data)| Edit::Insert { at, data }),
        3 => (any::<u16>(), len()).prop_map(|(at, len)| Edit::Delete { at, len }),
        3 => (any::<u16>(), len(), any::<u32>()).prop_map(|(at, len, seed)| Edit::Replace { at, len, seed }),
        2 => (any::<u16>(), len(), any::<u16>()).prop_map(|(at, len, to)| Edit::Duplicate { at, len, to }),
        3 => (any::<u16>(), len(), any::<u16>()).prop_map(|(at, len, to)| Edit::Move { at, len, to }),
        1 => any::<u16>().prop_map(|at| Edit::Truncate { at }),
        1 => small_seg().prop_map(|data| Edit::Append { data }),
        1 => small_seg().prop_map(|data| Edit::Prepend { data }),
    ]
}

pub fn related_strategy(max_len: u32) -> impl Strategy<Value = Related> {
    prop_oneof![
        1 => Just(Related::Same),
        1 => Just(Related::Empty),
        2 => source_strategy(3, max_len.min(2000)).prop_map(Related::Unrelated),
        8 => prop::collection::vec(edit_strategy(max_len), 1..5).prop_map(Related::Edited),
    ]
}

// ---------------------------------------------------------------------------------------
// read scripts

#[derive(Clone, Debug, Serialize, Deserialize, PartialEq)]
pub struct ReadScript {
    /// read sizes, cycled; 0 = "as much as the caller asks for"
    pub sizes: Vec<u32>,
    /// return Pending (and wake) before every k-th successful read; 0 = never
    pub pending_every: u8,
}
impl ReadScript {
    pub fn full() -> Self {
        ReadScript { sizes: vec![0], pending_every: 0 }
    }
}
pub fn read_script_strategy() -> impl Strategy<Value = ReadScript> {
    (
        prop_oneof![
            2 => Just(vec![0u32]),
            2 => Just(vec![1u32]),
            1 => Just(vec![2u32]),
            1 => Just(vec![3u32]),
            1 => Just(vec![7u32]),
            3 => prop::collection::vec(prop_oneof![1u32..=8, 1u32..=5000, Just(0u32)], 1..6),
        ],
        prop_oneof![3 => Just(0u8), 1 => 1u8..=4],
    )
        .prop_map(|(sizes, pending_every)| ReadScript { sizes, pending_every })
}
