//! In-memory I/O doubles for level L1: instrumented output, fragmenting readers, recording archive reader.
#![allow(dead_code)]

use crate::gen::ReadScript;
use async_trait::async_trait;
use bitar::archive_reader::ArchiveReader;
use bitar::ChunkOffset;
use bytes::Bytes;
use futures_util::stream::Stream;
use serde::{Deserialize, Serialize};
use std::io::{self, SeekFrom};
use std::pin::Pin;
use std::sync::{Arc, Mutex};
use std::task::{Context, Poll};
use tokio::io::{AsyncRead, AsyncSeek, AsyncWrite, ReadBuf};

// ---------------------------------------------------------------------------------------
// MemOutput

#[derive(Clone, Debug, Serialize, Deserialize, PartialEq)]
pub enum WriteFault {
    /// power cut at the k-th poll_write: apply `prefix` bytes of it (None = none, usize::MAX = all), then the device is dead
    Cut { k: usize, prefix: Option<usize> },
    /// k-th poll_write returns an error of the given kind and writes nothing; later operations work
    Fail { k: usize, kind: FaultKind },
    /// k-th poll_write transfers only j bytes (legal short write)
    Short { k: usize, j: usize },
    /// k-th poll_write returns Ok(0)
    Zero { k: usize },
    /// k-th poll_write returns Pending once (and wakes)
    Pending { k: usize },
    /// k-th start_seek fails with EIO (position unchanged)
    SeekFail { k: usize },
    /// k-th poll_read fails with EIO
    ReadFail { k: usize },
}
#[derive(Clone, Copy, Debug, Serialize, Deserialize, PartialEq)]
pub enum FaultKind {
    Eio,
    Enospc,
}

#[derive(Clone, Debug, PartialEq, Eq)]
pub struct WriteRec {
    pub off: u64,
    pub data: Vec<u8>,
}

pub struct MemOutput {
    pub data: Vec<u8>,
    pos: u64,
    pub writes: Vec<WriteRec>, // logical writes
    pub reads: Vec<(u64, usize)>,
    seeked: bool,
    pub poll_writes: usize,
    pub faults: Vec<WriteFault>,
    pending_done: bool,
    pub dead: bool,
    pub cap: u64,
    pub fault_fired: bool,
    pub set_len_calls: usize,
    pub flushes: usize,
    /// shared view of `poll_writes` (readable while the output is owned by a CloneOutput)
    pub counter: Arc<std::sync::atomic::AtomicUsize>,
    /// accept at most this many bytes per poll_write (like tokio::fs::File's 2 MiB buffer); 0 = unlimited
    pub max_write: usize,
    pub seeks: usize,
    pub read_calls: usize,
}

impl MemOutput {
    pub fn new(initial: Vec<u8>) -> Self {
        MemOutput {
            data: initial,
            pos: 0,
            writes: vec![],
            reads: vec![],
            seeked: true,
            poll_writes: 0,
            faults: vec![],
            pending_done: false,
            dead: false,
            cap: 256 * 1024 * 1024,
            fault_fired: false,
            set_len_calls: 0,
            flushes: 0,
            counter: Arc::new(std::sync::atomic::AtomicUsize::new(0)),
            max_write: 0,
            seeks: 0,
            read_calls: 0,
        }
    }
    pub fn with_faults(mut self, f: Vec<WriteFault>) -> Self {
        self.faults = f;
        self
    }
    pub fn set_len(&mut self, n: u64) {
        self.data.resize(n as usize, 0);
        self.set_len_calls += 1;
    }
    fn apply(&mut self, buf: &[u8]) {
        let off = self.pos as usize;
        if off + buf.len() > self.data.len() {
            self.data.resize(off + buf.len(), 0);
        }
        self.data[off..off + buf.len()].copy_from_slice(buf);
        if self.seeked || self.writes.is_empty() {
            self.writes.push(WriteRec { off: self.pos, data: buf.to_vec() });
            self.seeked = false;
        } else {
            self.writes.last_mut().unwrap().data.extend_from_slice(buf);
        }
        self.pos += buf.len() as u64;
    }
}

fn dead_err() -> io::Error {
    io::Error::new(io::ErrorKind::BrokenPipe, "power cut (device gone)")
}

impl AsyncWrite for MemOutput {
    fn poll_write(mut self: Pin<&mut Self>, cx: &mut Context<'_>, buf: &[u8]) -> Poll<io::Result<usize>> {
        if self.dead {
            return Poll::Ready(Err(dead_err()));
        }
        if self.pos.saturating_add(buf.len() as u64) > self.cap {
            return Poll::Ready(Err(io::Error::new(io::ErrorKind::Other, "write beyond the capacity of the in-memory output (ENOSPC-like)")));
        }
        let k = self.poll_writes;
        let fault = self.faults.iter().find(|f| match f {
            WriteFault::Cut { k: fk, .. } | WriteFault::Fail { k: fk, .. } | WriteFault::Short { k: fk, .. } | WriteFault::Zero { k: fk } | WriteFault::Pending { k: fk } => *fk == k,
            WriteFault::SeekFail { .. } | WriteFault::ReadFail { .. } => false,
        }).cloned();
        if let Some(WriteFault::Pending { .. }) = fault {
            if !self.pending_done {
                self.pending_done = true;
                cx.waker().wake_by_ref();
                return Poll::Pending;
            }
            self.pending_done = false;
        }
        self.poll_writes += 1;
        self.counter.store(self.poll_writes, std::sync::atomic::Ordering::Relaxed);
        match fault {
            Some(WriteFault::Cut { prefix, .. }) => {
                self.fault_fired = true;
                let n = match prefix {
                    None => 0,
                    Some(j) => j.min(buf.len()),
                };
                let part = buf[..n].to_vec();
                if n > 0 {
                    self.apply(&part);
                }
                self.dead = true;
                Poll::Ready(Err(dead_err()))
            }
            Some(WriteFault::Fail { kind, .. }) => {
                self.fault_fired = true;
                Poll::Ready(Err(match kind {
                    FaultKind::Eio => io::Error::from_raw_os_error(libc::EIO),
                    FaultKind::Enospc => io::Error::from_raw_os_error(libc::ENOSPC),
                }))
            }
            Some(WriteFault::Short { j, .. }) if !buf.is_empty() => {
                self.fault_fired = true;
                let n = j.clamp(1, buf.len());
                let part = buf[..n].to_vec();
                self.apply(&part);
                Poll::Ready(Ok(n))
            }
            Some(WriteFault::Zero { .. }) if !buf.is_empty() => {
                self.fault_fired = true;
                Poll::Ready(Ok(0))
            }
            _ => {
                let n = if self.max_write > 0 { buf.len().min(self.max_write) } else { buf.len() };
                let b = buf[..n].to_vec();
                self.apply(&b);
                Poll::Ready(Ok(n))
            }
        }
    }
    fn poll_flush(mut self: Pin<&mut Self>, _cx: &mut Context<'_>) -> Poll<io::Result<()>> {
        if self.dead {
            return Poll::Ready(Err(dead_err()));
        }
        self.flushes += 1;
        Poll::Ready(Ok(()))
    }
    fn poll_shutdown(self: Pin<&mut Self>, _cx: &mut Context<'_>) -> Poll<io::Result<()>> {
        Poll::Ready(Ok(()))
    }
}

impl AsyncRead for MemOutput {
    fn poll_read(mut self: Pin<&mut Self>, _cx: &mut Context<'_>, buf: &mut ReadBuf<'_>) -> Poll<io::Result<()>> {
        if self.dead {
            return Poll::Ready(Err(dead_err()));
        }
        let rk = self.read_calls;
        self.read_calls += 1;
        if self.faults.iter().any(|f| matches!(f, WriteFault::ReadFail { k } if *k == rk)) {
            self.fault_fired = true;
            return Poll::Ready(Err(io::Error::from_raw_os_error(libc::EIO)));
        }
        let pos = self.pos as usize;
        if pos < self.data.len() {
            let n = buf.remaining().min(self.data.len() - pos);
            buf.put_slice(&self.data[pos..pos + n]);
            self.reads.push((pos as u64, n));
            self.pos += n as u64;
        }
        Poll::Ready(Ok(()))
    }
}

impl AsyncSeek for MemOutput {
    fn start_seek(mut self: Pin<&mut Self>, position: SeekFrom) -> io::Result<()> {
        if self.dead {
            return Err(dead_err());
        }
        let sk = self.seeks;
        self.seeks += 1;
        if self.faults.iter().any(|f| matches!(f, WriteFault::SeekFail { k } if *k == sk)) {
            self.fault_fired = true;
            return Err(io::Error::from_raw_os_error(libc::EIO));
        }
        let np = match position {
            SeekFrom::Start(p) => p as i128,
            SeekFrom::End(d) => self.data.len() as i128 + d as i128,
            SeekFrom::Current(d) => self.pos as i128 + d as i128,
        };
        if np < 0 || np > u64::MAX as i128 {
            return Err(io::Error::new(io::ErrorKind::InvalidInput, "seek out of range"));
        }
        self.pos = np as u64;
        self.seeked = true;
        Ok(())
    }
    fn poll_complete(self: Pin<&mut Self>, _cx: &mut Context<'_>) -> Poll<io::Result<u64>> {
        Poll::Ready(Ok(self.pos))
    }
}

// ---------------------------------------------------------------------------------------
// FragReader: AsyncRead (+ AsyncSeek) with scripted read sizes, Pending and early EOF

pub struct FragReader {
    pub data: Arc<Vec<u8>>,
    pos: usize,
    script: ReadScript,
    step: usize,
    reads_done: usize,
    pending_next: bool,
    /// pretend the data ends here (early EOF) if set
    pub eof_at: Option<usize>,
    pub read_log: Option<Arc<Mutex<Vec<(u64, usize)>>>>,
}

impl FragReader {
    pub fn new(data: Arc<Vec<u8>>, script: ReadScript) -> Self {
        FragReader { data, pos: 0, script, step: 0, reads_done: 0, pending_next: false, eof_at: None, read_log: None }
    }
    pub fn from_vec(data: Vec<u8>, script: ReadScript) -> Self {
        Self::new(Arc::new(data), script)
    }
    /// a reader that was partly consumed before it is handed over
    pub fn set_pos(&mut self, pos: usize) {
        self.pos = pos.min(self.data.len());
    }
}

impl AsyncRead for FragReader {
    fn poll_read(mut self: Pin<&mut Self>, cx: &mut Context<'_>, buf: &mut ReadBuf<'_>) -> Poll<io::Result<()>> {
        let end = self.eof_at.unwrap_or(self.data.len()).min(self.data.len());
        if self.pos >= end || buf.remaining() == 0 {
            return Poll::Ready(Ok(()));
        }
        let pe = self.script.pending_every as usize;
        if pe > 0 && self.reads_done % pe == 0 && !self.pending_next {
            self.pending_next = true;
            cx.waker().wake_by_ref();
            return Poll::Pending;
        }
        self.pending_next = false;
        let sz = if self.script.sizes.is_empty() { 0 } else { self.script.sizes[self.step % self.script.sizes.len()] as usize };
        self.step += 1;
        let avail = end - self.pos;
        let n = if sz == 0 { avail.min(buf.remaining()) } else { sz.min(avail).min(buf.remaining()) };
        let pos = self.pos;
        let data = self.data.clone();
        buf.put_slice(&data[pos..pos + n]);
        if let Some(l) = &self.read_log {
            l.lock().unwrap().push((pos as u64, n));
        }
        self.pos += n;
        self.reads_done += 1;
        Poll::Ready(Ok(()))
    }
}

impl AsyncSeek for FragReader {
    fn start_seek(mut self: Pin<&mut Self>, position: SeekFrom) -> io::Result<()> {
        let np = match position {
            SeekFrom::Start(p) => p as i128,
            SeekFrom::End(d) => self.data.len() as i128 + d as i128,
            SeekFrom::Current(d) => self.pos as i128 + d as i128,
        };
        if np < 0 {
            return Err(io::Error::new(io::ErrorKind::InvalidInput, "negative seek"));
        }
        self.pos = (np as u128).min(usize::MAX as u128) as usize;
        Ok(())
    }
    fn poll_complete(self: Pin<&mut Self>, _cx: &mut Context<'_>) -> Poll<io::Result<u64>> {
        Poll::Ready(Ok(self.pos as u64))
    }
}

// ---------------------------------------------------------------------------------------
// RecordingReader

#[derive(Clone, Debug, PartialEq, Eq, Serialize, Deserialize)]
pub enum ReadRec {
    At { offset: u64, size: usize },
    Chunks(Vec<(u64, usize)>),
}
pub type ReadLog = Arc<Mutex<Vec<ReadRec>>>;

pub struct RecordingReader<R> {
    inner: R,
    pub log: ReadLog,
}
impl<R> RecordingReader<R> {
    pub fn new(inner: R) -> (Self, ReadLog) {
        let log: ReadLog = Arc::new(Mutex::new(vec![]));
        (RecordingReader { inner, log: log.clone() }, log)
    }
}

#[async_trait]
impl<R> ArchiveReader for RecordingReader<R>
where
    R: ArchiveReader + Send,
    R::Error: Send,
{
    type Error = R::Error;
    async fn read_at<'a>(&'a mut self, offset: u64, size: usize) -> Result<Bytes, Self::Error> {
        self.log.lock().unwrap().push(ReadRec::At { offset, size });
        self.inner.read_at(offset, size).await
    }
    fn read_chunks<'a>(&'a mut self, chunks: Vec<ChunkOffset>) -> Pin<Box<dyn Stream<Item = Result<Bytes, Self::Error>> + Send + 'a>> {
        self.log.lock().unwrap().push(ReadRec::Chunks(chunks.iter().map(|c| (c.offset, c.size)).collect()));
        self.inner.read_chunks(chunks)
    }
}


// ---------------------------------------------------------------------------------------
// an archive sink that, like a file or a socket, may accept only part of a buffer per write call

pub struct ShortWriter {
    pub data: Vec<u8>,
    /// at most this many bytes are accepted per poll_write (0 = everything)
    pub max_write: usize,
    /// return Pending (and wake) before every k-th write; 0 = never
    pub pending_every: usize,
    writes: usize,
    pending_next: bool,
}
impl ShortWriter {
    pub fn new(max_write: usize, pending_every: usize) -> Self {
        ShortWriter { data: Vec::new(), max_write, pending_every, writes: 0, pending_next: false }
    }
}
impl AsyncWrite for ShortWriter {
    fn poll_write(mut self: Pin<&mut Self>, cx: &mut Context<'_>, buf: &[u8]) -> Poll<io::Result<usize>> {
        if self.pending_every > 0 && self.writes % self.pending_every == 0 && !self.pending_next {
            self.pending_next = true;
            cx.waker().wake_by_ref();
            return Poll::Pending;
        }
        self.pending_next = false;
        self.writes += 1;
        let n = if self.max_write == 0 { buf.len() } else { buf.len().min(self.max_write) };
        self.data.extend_from_slice(&buf[..n]);
        Poll::Ready(Ok(n))
    }
    fn poll_flush(self: Pin<&mut Self>, _cx: &mut Context<'_>) -> Poll<io::Result<()>> {
        Poll::Ready(Ok(()))
    }
    fn poll_shutdown(self: Pin<&mut Self>, _cx: &mut Context<'_>) -> Poll<io::Result<()>> {
        Poll::Ready(Ok(()))
    }
}
