//! Glue between libFuzzer and the checks: fuzz bytes become the random stream of the check's own proptest
//! strategy (PassThrough RNG), the oracle is the check's own case function. A violation panics with the case
//! as JSON (the libFuzzer artifact + this message are the reproduction). Known findings are tolerated so that a
//! campaign does not stop at the first one; `BVERIF_FUZZ_STRICT=1` makes them fatal (replay mode).
use crate::engine::*;
use proptest::strategy::{Strategy, ValueTree};
use proptest::test_runner::{Config, RngAlgorithm, TestRng, TestRunner};
use serde::Serialize;

/// Build a case from the check's own proptest strategy, seeded by a hash of the fuzz input. (proptest's
/// PassThrough RNG cannot be used: it hands out halves of the input to child generators and yields zeros once a
/// part is exhausted, which rand's uniform sampling rejects for ever.) The fuzzer therefore cannot steer the
/// structure of such a case, only re-roll it; the byte-level modes below are the coverage-guided ones.
fn from_bytes<S: Strategy>(strat: &S, data: &[u8]) -> Option<S::Value> {
    let rng = TestRng::from_seed(RngAlgorithm::ChaCha, &blake2_seed32(&[data]));
    let mut runner = TestRunner::new_with_rng(Config { failure_persistence: None, ..Config::default() }, rng);
    strat.new_tree(&mut runner).ok().map(|t| t.current())
}

/// C09: configuration and read script decoded from 12 header bytes (monotone maps), the rest of the input IS the
/// source stream — libFuzzer mutates the chunker's input directly.
fn decode_c09(data: &[u8]) -> Option<crate::props::c09::Case> {
    use crate::gen::*;
    if data.len() < 12 {
        return None;
    }
    let h = &data[..12];
    let window = 1 + h[2] as usize;
    let max = window + (u16::from_le_bytes([h[5], h[6]]) as usize % 700);
    let min = match h[3] % 4 {
        0 => 0,
        1 => (h[4] as usize) % (window + 1),
        2 => window.min(max),
        _ => window + (u16::from_le_bytes([h[4], h[7]]) as usize) % (max - window + 1),
    };
    let cfg = match h[0] % 5 {
        0 => ChunkerCfg { algo: Algo::FixedSize, bits: 0, min: 0, max: 1 + h[2] as usize, window: 0 },
        1 | 2 => ChunkerCfg { algo: Algo::RollSum, bits: 1 + (h[1] % 10) as u32, min: min.min(max), max, window },
        _ => ChunkerCfg { algo: Algo::BuzHash, bits: 1 + (h[1] % 10) as u32, min: min.min(max), max, window },
    };
    let reads = match h[8] % 4 {
        0 => ReadScript::full(),
        1 => ReadScript { sizes: vec![1], pending_every: h[11] % 3 },
        _ => ReadScript { sizes: vec![1 + h[9] as u32, 1 + (h[10] as u32) * 16], pending_every: h[11] % 4 },
    };
    Some(crate::props::c09::Case { cfg, source: vec![Seg::Lit { bytes: data[12..].to_vec() }], reads })
}

/// C03 / C13: an abstract layout straight from the fuzz input, so that libFuzzer's coverage feedback steers the shape
/// of prior and target (planner, overlap map, executor): [k-2][hash len][n prior][sizes x k][prior slots][target slots].
fn decode_layout(data: &[u8]) -> Option<crate::props::c03::Layout> {
    if data.len() < 4 {
        return None;
    }
    let k = 2 + (data[0] % 11) as usize;
    let hash_len = match data[1] % 4 {
        0 | 1 => 64,
        2 => 8 + (data[1] as usize / 4) % 57,
        _ => 8,
    };
    let rest = &data[3..];
    if rest.len() < k {
        return None;
    }
    let sizes: Vec<u32> = rest[..k].iter().map(|b| if b & 0x80 != 0 { 1 + (*b as u32 & 0x7f) + (*b as u32 & 3) * 40 } else { 1 + (*b as u32 & 0x0f) % 9 }).collect();
    let slots = &rest[k..];
    let np = (data[2] as usize).min(slots.len()).min(60);
    let prior: Vec<u8> = slots[..np].iter().map(|b| b % k as u8).collect();
    let target: Vec<u8> = slots[np..].iter().take(60).map(|b| b % k as u8).collect();
    Some(crate::props::c03::Layout { sizes, prior, target, hash_len })
}

/// C10: [algo][bits][window][min class][min pick][max lo][max hi][|P1|][|P2|][read script x2] then P1, P2 and the common
/// data S as raw bytes: the fuzzer mutates the streams themselves.
fn decode_c10(data: &[u8]) -> Option<crate::props::c10::Case> {
    use crate::gen::*;
    if data.len() < 12 {
        return None;
    }
    let h = &data[..12];
    let window = 1 + (h[2] as usize % 64);
    let max = window + (u16::from_le_bytes([h[5], h[6]]) as usize % 400);
    let min = match h[3] % 4 {
        0 => 0,
        1 => (h[4] as usize) % (window + 1),
        2 => window.min(max),
        _ => window + (h[4] as usize) % (max - window + 1),
    };
    let cfg = match h[0] % 5 {
        0 => ChunkerCfg { algo: Algo::FixedSize, bits: 0, min: 0, max: 1 + h[2] as usize, window: 0 },
        1 | 2 => ChunkerCfg { algo: Algo::RollSum, bits: 1 + (h[1] % 6) as u32, min: min.min(max), max, window },
        _ => ChunkerCfg { algo: Algo::BuzHash, bits: 1 + (h[1] % 6) as u32, min: min.min(max), max, window },
    };
    let body = &data[12..];
    let n1 = (h[7] as usize).min(body.len());
    let n2 = (h[8] as usize).min(body.len() - n1);
    let script = |b: u8| match b % 4 {
        0 | 1 => ReadScript::full(),
        2 => ReadScript { sizes: vec![1 + (b as u32 >> 2) % 9], pending_every: b >> 6 },
        _ => ReadScript { sizes: vec![1 + (b as u32 >> 2), 0, 3], pending_every: b >> 6 },
    };
    Some(crate::props::c10::Case {
        cfg,
        p1: vec![Seg::Lit { bytes: body[..n1].to_vec() }],
        p2: vec![Seg::Lit { bytes: body[n1..n1 + n2].to_vec() }],
        s: vec![Seg::Lit { bytes: body[n1 + n2..].to_vec() }],
        r1: script(h[9]),
        r2: script(h[10]),
    })
}

fn report<C: Serialize>(prop: &str, variant: &str, case: &C, msg: &str) -> ! {
    let doc = serde_json::json!({"property": prop, "variant": variant, "case": case, "observed": msg});
    eprintln!("VIOLATION-CASE {}", doc);
    // write a replay file next to the libFuzzer artifact
    let dir = std::path::Path::new(&verif_root()).join("replays").join(prop).join("new");
    let _ = std::fs::create_dir_all(&dir);
    let path = dir.join(format!("fuzz-{:016x}.json", blake2_64(&[doc.to_string().as_bytes()])));
    let _ = std::fs::write(&path, serde_json::to_vec_pretty(&doc).unwrap());
    eprintln!("VIOLATION property={} replay={}", prop, path.display());
    std::process::abort();
}

/// The case now running, for the hang watchdog: (wall start, process CPU seconds at start, property, variant, case JSON)
static WATCH: std::sync::Mutex<Option<(std::time::Instant, f64, String, &'static str, String)>> = std::sync::Mutex::new(None);

fn cpu_seconds() -> f64 {
    let mut ts = libc::timespec { tv_sec: 0, tv_nsec: 0 };
    unsafe { libc::clock_gettime(libc::CLOCK_PROCESS_CPUTIME_ID, &mut ts) };
    ts.tv_sec as f64 + ts.tv_nsec as f64 * 1e-9
}

/// Run one case under the watchdog. Cases take micro- to milliseconds. The watchdog decides on the CPU time the
/// process burnt since the case began (independent of machine load): more than BVERIF_FUZZ_HANG_CPU_S (150) CPU-seconds
/// is reported — as a C15 violation `[hang]` (C15 forbids unbounded loops) with a replay file, for the other
/// properties as inconclusive (exit code 3). A case that merely sits there (no CPU) for 1000 s is inconclusive too.
fn watched<C: Serialize, R>(prop: &str, variant: &'static str, c: &C, f: impl FnOnce() -> R) -> R {
    *WATCH.lock().unwrap() = Some((std::time::Instant::now(), cpu_seconds(), prop.to_string(), variant, serde_json::to_string(c).unwrap_or_default()));
    let r = f();
    *WATCH.lock().unwrap() = None;
    r
}

fn start_watchdog() {
    let cpu_limit: f64 = std::env::var("BVERIF_FUZZ_HANG_CPU_S").ok().and_then(|v| v.parse().ok()).unwrap_or(150.0);
    std::thread::spawn(move || loop {
        std::thread::sleep(std::time::Duration::from_millis(1000));
        let g = WATCH.lock().unwrap();
        if let Some((t0, c0, prop, variant, case)) = g.as_ref() {
            let cpu = cpu_seconds() - c0;
            let wall = t0.elapsed().as_secs_f64();
            if cpu > cpu_limit && prop == "C15" {
                let case: serde_json::Value = serde_json::from_str(case).unwrap_or(serde_json::Value::Null);
                let msg = format!("[hang] the case has used {:.0} s of CPU time ({:.0} s wall) without finishing; cases of this kind take milliseconds: unbounded loop", cpu, wall);
                report(prop, variant, &case, &msg);
            }
            if cpu > cpu_limit || wall > 1000.0 {
                eprintln!("INCONCLUSIVE-HANG property={} variant={} cpu={:.0}s wall={:.0}s case={}", prop, variant, cpu, wall, case);
                unsafe { libc::_exit(3) };
            }
        }
    });
}

pub fn run(prop: &str, data: &[u8]) {
    static ONCE: std::sync::Once = std::sync::Once::new();
    ONCE.call_once(|| {
        // replace libfuzzer-sys' abort-on-panic hook: the checks catch panics themselves and classify them
        install_panic_hook();
        std::env::set_var("BVERIF_NO_L2", "1");
        start_watchdog();
    });
    let strict = std::env::var("BVERIF_FUZZ_STRICT").is_ok();
    let mut rec = CaseRec::default();
    match prop {
        "C09" => {
            let Some(c) = decode_c09(data) else { return };
            if let Err(f) = watched(prop, "rand", &c, || guarded(|| crate::props::c09::run_case(&c, &mut rec))) {
                report(prop, "rand", &c, &f.message);
            }
        }
        "C15" => {
            let mode = data.first().copied().unwrap_or(0) % 4;
            let body = data.get(1..).unwrap_or(&[]);
            match mode {
                0 => {
                    // raw bytes presented as an archive
                    let c = crate::props::c15::RawCase { base: None, bytes: body.to_vec(), flip: None, trunc: None, seed: None };
                    if let Err(f) = watched(prop, "raw", &c, || guarded(|| crate::props::c15::run_raw_inner(&c, &mut rec, strict))) {
                        report(prop, "raw", &c, &f.message);
                    }
                }
                1 | 2 => {
                    // checksum fix-up: [dict_len u16][dictionary bytes][chunk data]; the harness wraps the fuzzer's
                    // dictionary bytes in a header with a VALID checksum, so mutations reach the dictionary decoder
                    // and everything behind it.
                    if body.len() < 2 {
                        return;
                    }
                    let dl = (u16::from_le_bytes([body[0], body[1]]) as usize).min(body.len() - 2);
                    let dict = &body[2..2 + dl];
                    let rest = &body[2 + dl..];
                    let mut bytes = crate::refs::format::build_header_raw(mode == 2 && dl % 2 == 1, dict.len() as u64, dict, crate::refs::format::header_len_for(dict.len()) as u64);
                    bytes.extend_from_slice(rest);
                    let c = crate::props::c15::RawCase { base: None, bytes, flip: None, trunc: None, seed: if mode == 2 { Some(rest[..rest.len().min(1500)].to_vec()) } else { None } };
                    if let Err(f) = watched(prop, "raw", &c, || guarded(|| crate::props::c15::run_raw_inner(&c, &mut rec, strict))) {
                        report(prop, "raw", &c, &f.message);
                    }
                }
                _ => {
                    let Some(mut c) = from_bytes(&crate::props::c15::case_strategy(), body) else { return };
                    c.l2 = false;
                    c.transport = crate::props::c15::Transport::Local;
                    if let Err(f) = watched(prop, "struct", &c, || guarded(|| crate::props::c15::run_case_inner(&c, &mut rec, strict))) {
                        report(prop, "struct", &c, &f.message);
                    }
                }
            }
        }
        "C03" => {
            let Some(l) = decode_layout(data) else { return };
            if let Err(f) = watched(prop, "rand", &l, || guarded(|| crate::props::c03::check_layout(&l, &mut rec))) {
                report(prop, "rand", &l, &f.message);
            }
        }
        "C13" => {
            let Some(l) = decode_layout(data) else { return };
            if let Err(f) = watched(prop, "layout", &l, || guarded(|| crate::props::c13::layout_case(&l, &mut rec))) {
                report(prop, "layout", &l, &f.message);
            }
        }
        "C10" => {
            let Some(c) = decode_c10(data) else { return };
            if let Err(f) = watched(prop, "resync", &c, || guarded(|| crate::props::c10::run_case(&c, &mut rec))) {
                report(prop, "resync", &c, &f.message);
            }
        }
        "C17" => {
            let Some(mut c) = from_bytes(&crate::props::c17::case_strategy(), data) else { return };
            c.l2 = false;
            c.http = false;
            if let Err(f) = watched(prop, "enc", &c, || guarded(|| crate::props::c17::run_case(&c, &mut rec))) {
                report(prop, "enc", &c, &f.message);
            }
        }
        _ => panic!("unknown fuzz property"),
    }
}
