//! Engine: seeded proptest runner driven from a binary, worker sub-processes, panic capture,
//! known-finding matching, replay files and evidence writing.
#![allow(dead_code)]

use proptest::strategy::{Strategy, ValueTree};
use proptest::test_runner::{Config, RngAlgorithm, TestCaseError, TestError, TestRng, TestRunner};
use serde::{Deserialize, Serialize};
use serde_json::{json, Value};
use std::cell::RefCell;
use std::collections::{BTreeMap, BTreeSet, HashSet};
use std::fmt::Debug;
use std::io::Write;
use std::panic::{catch_unwind, AssertUnwindSafe};
use std::path::{Path, PathBuf};
use std::sync::Mutex;
use std::time::Instant;

/// Root of the verification tree: the directory of the `check` wrapper (exported as VERIF_ROOT), /verif by default.
pub fn verif_root() -> String {
    std::env::var("VERIF_ROOT").unwrap_or_else(|_| "/verif".to_string())
}
/// The checkout under test: /repo, or VERIF_REPO (development aid, exported by `check`).
pub fn repo_root() -> String {
    std::env::var("VERIF_REPO").unwrap_or_else(|_| "/repo".to_string())
}

#[derive(Clone, Copy, PartialEq, Eq, Debug)]
pub enum Tier {
    Quick,
    Thorough,
}
impl Tier {
    pub fn name(self) -> &'static str {
        match self {
            Tier::Quick => "quick",
            Tier::Thorough => "thorough",
        }
    }
    /// pick a count by tier
    pub fn pick<T>(self, q: T, t: T) -> T {
        match self {
            Tier::Quick => q,
            Tier::Thorough => t,
        }
    }
}

// ---------------------------------------------------------------------------------------
// hashing helpers

pub fn blake2_64(parts: &[&[u8]]) -> u64 {
    use blake2::{Blake2b512, Digest};
    let mut h = Blake2b512::new();
    for p in parts {
        h.update((p.len() as u64).to_le_bytes());
        h.update(p);
    }
    let d = h.finalize();
    u64::from_le_bytes(d[..8].try_into().unwrap())
}
pub fn blake2_seed32(parts: &[&[u8]]) -> [u8; 32] {
    use blake2::{Blake2b512, Digest};
    let mut h = Blake2b512::new();
    for p in parts {
        h.update((p.len() as u64).to_le_bytes());
        h.update(p);
    }
    let d = h.finalize();
    d[..32].try_into().unwrap()
}
static CURRENT_PROP: std::sync::OnceLock<String> = std::sync::OnceLock::new();
/// the property this process is checking ("" in the fuzz targets)
pub fn current_prop() -> &'static str {
    CURRENT_PROP.get().map(|s| s.as_str()).unwrap_or("")
}

thread_local! {
    static CASE_SALT: std::cell::Cell<u64> = std::cell::Cell::new(0);
}
/// A hash of the case now being evaluated (canonical JSON: keys sorted), from which the L2 runner derives the option
/// dimensions that are not part of any case structure (`-v`, `--http-timeout`, `--http-header`). A replay computes the
/// same value from the replay file's "case", so it makes the same choices.
pub fn case_salt() -> u64 {
    CASE_SALT.with(|c| c.get())
}
pub fn set_case_salt_from<T: Serialize>(case: &T) {
    let v = serde_json::to_value(case).map(|v| v.to_string()).unwrap_or_default();
    CASE_SALT.with(|c| c.set(blake2_64(&[v.as_bytes()])));
}

pub fn key_of<T: Serialize>(v: &T) -> u64 {
    let s = serde_json::to_vec(v).unwrap();
    blake2_64(&[&s])
}

// ---------------------------------------------------------------------------------------
// panic capture

#[derive(Clone, Debug, Serialize, Deserialize)]
pub struct PanicRec {
    pub file: String,
    pub line: u32,
    pub message: String,
}
static PANICS: Mutex<Vec<PanicRec>> = Mutex::new(Vec::new());
static PANIC_VERBOSE: std::sync::atomic::AtomicBool = std::sync::atomic::AtomicBool::new(false);

pub fn install_panic_hook() {
    std::panic::set_hook(Box::new(|info| {
        let (file, line) = info
            .location()
            .map(|l| (l.file().to_string(), l.line()))
            .unwrap_or(("?".into(), 0));
        let message = if let Some(s) = info.payload().downcast_ref::<&str>() {
            s.to_string()
        } else if let Some(s) = info.payload().downcast_ref::<String>() {
            s.clone()
        } else {
            "<non-string panic payload>".to_string()
        };
        if PANIC_VERBOSE.load(std::sync::atomic::Ordering::Relaxed) {
            eprintln!("panic at {}:{}: {}", file, line, message);
        }
        if let Ok(mut p) = PANICS.lock() {
            if p.len() < 64 {
                p.push(PanicRec { file, line, message });
            }
        }
    }));
}
pub fn set_panic_verbose(v: bool) {
    PANIC_VERBOSE.store(v, std::sync::atomic::Ordering::Relaxed);
}
pub fn clear_panics() {
    PANICS.lock().unwrap().clear();
}
/// Put a panic record (captured by an inner `guarded`) back so that the enclosing `guarded` attributes the
/// failure to it.
pub fn repush_panic(p: PanicRec) {
    if let Ok(mut l) = PANICS.lock() {
        l.insert(0, p);
    }
}
pub fn take_panics() -> Vec<PanicRec> {
    std::mem::take(&mut *PANICS.lock().unwrap())
}
/// First panic that happened inside /repo code (root cause), else first panic of any kind.
pub fn root_panic(p: &[PanicRec]) -> Option<PanicRec> {
    p.iter()
        .find(|r| is_repo_file(&r.file))
        .or_else(|| p.first())
        .cloned()
}
fn is_repo_file(f: &str) -> bool {
    f.starts_with("/repo/") || f.starts_with(&format!("{}/", repo_root())) || f.starts_with("bitar/") || f.starts_with("src/")
}
/// Normalised text of the source line at a panic location, read from /repo.
pub fn source_line(file: &str, line: u32) -> String {
    let path = if file.starts_with('/') {
        PathBuf::from(file)
    } else {
        Path::new(&repo_root()).join(file)
    };
    std::fs::read_to_string(path)
        .ok()
        .and_then(|s| s.lines().nth(line.saturating_sub(1) as usize).map(|l| l.to_string()))
        .map(|l| l.split_whitespace().collect::<Vec<_>>().join(" "))
        .unwrap_or_default()
}

/// Run `f`, turning a panic into Err("panic ..."), with the panic records.
pub fn guarded<T>(f: impl FnOnce() -> Result<T, String>) -> Result<T, Fail> {
    clear_panics();
    let r = catch_unwind(AssertUnwindSafe(f));
    let panics = take_panics();
    match r {
        Ok(Ok(v)) => Ok(v),
        Ok(Err(m)) => Err(Fail {
            message: m,
            panic: root_panic(&panics),
        }),
        Err(_) => {
            let p = root_panic(&panics);
            Err(Fail {
                message: match &p {
                    Some(p) => format!("panic at {}:{}: {}", p.file, p.line, p.message),
                    None => "panic (no record)".into(),
                },
                panic: p,
            })
        }
    }
}

#[derive(Clone, Debug)]
pub struct Fail {
    pub message: String,
    pub panic: Option<PanicRec>,
}
impl Fail {
    pub fn msg(m: impl Into<String>) -> Self {
        Fail {
            message: m.into(),
            panic: None,
        }
    }
}

// ---------------------------------------------------------------------------------------
// known findings

#[derive(Clone, Debug, Serialize, Deserialize)]
pub struct KnownFinding {
    pub id: String,
    pub property: String,
    pub status: String, // "open" | "fixed"
    #[serde(default)]
    pub commit: Option<String>,
    pub what: String,
    #[serde(default)]
    pub r#match: Option<KfMatch>,
}
#[derive(Clone, Debug, Serialize, Deserialize)]
pub struct KfMatch {
    pub kind: String, // panic | abort | semantic
    #[serde(default)]
    pub file: Option<String>, // suffix of the panic file
    #[serde(default)]
    pub line_contains: Option<String>, // substring of the normalised source line
    #[serde(default)]
    pub message_contains: Option<String>,
    #[serde(default)]
    pub also_contains: Option<String>, // second substring the failure message must contain (e.g. the pipeline step)
    #[serde(default)]
    pub predicate: Option<String>, // semantic: name of the predicate implemented in the check
}

/// Match a failure against a list of known findings (used by checks that judge several steps per case).
pub fn match_known_in(known: &[KnownFinding], fail: &Fail) -> Option<KnownFinding> {
    for k in known {
        if k.status != "open" {
            continue;
        }
        let Some(m) = &k.r#match else { continue };
        if let Some(ac) = &m.also_contains {
            if !fail.message.contains(ac.as_str()) {
                continue;
            }
        }
        match m.kind.as_str() {
            "panic" => {
                let Some(p) = &fail.panic else { continue };
                if let Some(f) = &m.file {
                    if !p.file.ends_with(f.as_str()) {
                        continue;
                    }
                }
                if let Some(lc) = &m.line_contains {
                    if !source_line(&p.file, p.line).contains(lc.as_str()) {
                        continue;
                    }
                }
                if let Some(mc) = &m.message_contains {
                    if !p.message.contains(mc.as_str()) {
                        continue;
                    }
                }
                return Some(k.clone());
            }
            _ => {
                if let Some(pred) = &m.predicate {
                    if fail.message.contains(&format!("[{}]", pred)) {
                        return Some(k.clone());
                    }
                }
            }
        }
    }
    None
}

pub fn load_known_findings() -> Vec<KnownFinding> {
    let p = Path::new(&verif_root()).join("known_findings.json");
    match std::fs::read_to_string(&p) {
        Ok(s) => serde_json::from_str(&s).expect("known_findings.json must parse"),
        Err(_) => vec![],
    }
}

// ---------------------------------------------------------------------------------------
// statistics / failures

#[derive(Clone, Debug, Serialize, Deserialize, Default)]
pub struct Failure {
    pub variant: String,
    pub case: Value,
    pub message: String,
    pub signature: String,
}

#[derive(Clone, Debug, Serialize, Deserialize, Default)]
pub struct Stats {
    pub evaluations: u64,
    pub nontrivial_keys: Vec<u64>,
    pub classes: BTreeMap<String, u64>,
    pub excluded: BTreeMap<String, u64>,
    pub known_hits: BTreeMap<String, u64>,
    pub exhaustive: BTreeMap<String, u64>,
    pub levels: BTreeMap<String, u64>,
    pub samples: Vec<Value>,
    pub failures: Vec<Failure>,
    pub notes: Vec<String>,
    pub inconclusive: Vec<String>,
}

pub struct WorkerCtx {
    pub prop: String,
    pub tier: Tier,
    pub seed: u64,
    pub worker: usize,
    pub nworkers: usize,
    pub stats: Stats,
    pub nontrivial: HashSet<u64>,
    pub known: Vec<KnownFinding>,
    pub announce_path: Option<PathBuf>,
    pub max_samples: usize,
    pub strict: bool, // replay mode: known findings are not tolerated silently
}

/// Per-case record filled in by the property closure.
#[derive(Default, Debug)]
pub struct CaseRec {
    pub nontrivial: bool,
    pub classes: Vec<String>,
    pub excluded: Option<String>,
    pub level: Option<&'static str>,
    pub known: Vec<String>,
    pub sample: Option<Value>,
}
impl CaseRec {
    pub fn class(&mut self, c: impl Into<String>) {
        self.classes.push(c.into());
    }
    pub fn class_if(&mut self, cond: bool, c: &str) {
        if cond {
            self.classes.push(c.to_string());
        }
    }
}

impl WorkerCtx {
    pub fn new(prop: &str, tier: Tier, seed: u64, worker: usize, nworkers: usize) -> Self {
        WorkerCtx {
            prop: prop.to_string(),
            tier,
            seed,
            worker,
            nworkers,
            stats: Stats::default(),
            nontrivial: HashSet::new(),
            known: load_known_findings()
                .into_iter()
                .filter(|k| k.property == prop)
                .collect(),
            announce_path: None,
            max_samples: 4,
            strict: false,
        }
    }
    /// number of cases this worker should run out of `total`
    pub fn share(&self, total: u64) -> u64 {
        let base = total / self.nworkers as u64;
        let rem = total % self.nworkers as u64;
        base + if (self.worker as u64) < rem { 1 } else { 0 }
    }
    pub fn mine(&self, index: u64) -> bool {
        index % self.nworkers as u64 == self.worker as u64
    }
    pub fn rng_seed(&self, variant: &str) -> [u8; 32] {
        blake2_seed32(&[
            &self.seed.to_le_bytes(),
            self.prop.as_bytes(),
            variant.as_bytes(),
            &(self.worker as u64).to_le_bytes(),
        ])
    }
    pub fn announce(&self, v: &Value) {
        if let Some(p) = &self.announce_path {
            let _ = std::fs::write(p, serde_json::to_vec(v).unwrap());
        }
    }
    pub fn note(&mut self, s: impl Into<String>) {
        self.stats.notes.push(s.into());
    }
    pub fn inconclusive(&mut self, s: impl Into<String>) {
        self.stats.inconclusive.push(s.into());
    }
    pub fn count_class(&mut self, c: &str, n: u64) {
        *self.stats.classes.entry(c.to_string()).or_insert(0) += n;
    }
    pub fn count_excluded(&mut self, c: &str, n: u64) {
        *self.stats.excluded.entry(c.to_string()).or_insert(0) += n;
    }
    pub fn count_level(&mut self, c: &str, n: u64) {
        *self.stats.levels.entry(c.to_string()).or_insert(0) += n;
    }
    pub fn set_exhaustive(&mut self, name: &str, n: u64) {
        *self.stats.exhaustive.entry(name.to_string()).or_insert(0) += n;
    }

    /// Match a failure against the open known findings of this property.
    pub fn match_known(&self, fail: &Fail) -> Option<KnownFinding> {
        match_known_in(&self.known, fail)
    }

    pub fn account(&mut self, rec: CaseRec, key: u64, sample: impl FnOnce() -> Value) {
        self.stats.evaluations += 1;
        if let Some(e) = &rec.excluded {
            *self.stats.excluded.entry(e.clone()).or_insert(0) += 1;
        }
        for c in &rec.classes {
            *self.stats.classes.entry(c.clone()).or_insert(0) += 1;
        }
        if let Some(l) = rec.level {
            *self.stats.levels.entry(l.to_string()).or_insert(0) += 1;
        }
        for k in &rec.known {
            *self.stats.known_hits.entry(k.clone()).or_insert(0) += 1;
        }
        if rec.nontrivial && rec.excluded.is_none() {
            let new = self.nontrivial.insert(key);
            if new && self.stats.samples.len() < self.max_samples {
                let s = rec.sample.clone().unwrap_or_else(sample);
                self.stats.samples.push(shorten(s));
            }
        }
    }

    pub fn fail(&mut self, variant: &str, case: Value, fail: &Fail) {
        let sig = signature_of(&self.prop, variant, fail);
        self.stats.failures.push(Failure {
            variant: variant.to_string(),
            case,
            message: fail.message.clone(),
            signature: sig,
        });
    }

    /// Evaluate one explicitly constructed case (enumerations). Returns true if it held (or was a known finding).
    pub fn eval_case<C: Serialize>(
        &mut self,
        variant: &str,
        case: &C,
        key: u64,
        f: impl FnOnce(&mut CaseRec) -> Result<(), String>,
    ) -> bool {
        let mut rec = CaseRec::default();
        if self.announce_path.is_some() {
            self.announce(&json!({"variant": variant, "case": serde_json::to_value(case).unwrap()}));
        }
        if !matches!(self.prop.as_str(), "C03" | "C09" | "C10") {
            set_case_salt_from(case);
        }
        let r = guarded(|| f(&mut rec));
        match r {
            Ok(()) => {
                self.account(rec, key, || serde_json::to_value(case).unwrap());
                true
            }
            Err(fail) => {
                if fail.message.starts_with("[timeout]") {
                    // a wall-clock limit was hit: inconclusive, never a violation
                    if self.stats.inconclusive.len() < 5 {
                        self.stats.inconclusive.push(fail.message.chars().take(300).collect());
                    }
                    self.account(rec, key, || serde_json::to_value(case).unwrap());
                    return true;
                }
                if !self.strict {
                    if let Some(k) = self.match_known(&fail) {
                        rec.known.push(k.id.clone());
                        self.account(rec, key, || serde_json::to_value(case).unwrap());
                        return true;
                    }
                }
                self.account(rec, key, || serde_json::to_value(case).unwrap());
                if self.stats.failures.iter().filter(|f| f.variant == variant).count() < 3 {
                    self.fail(variant, serde_json::to_value(case).unwrap(), &fail);
                }
                false
            }
        }
    }

    /// Run a proptest strategy for this worker's share of `total` cases.
    pub fn run_prop<S>(
        &mut self,
        variant: &str,
        total: u64,
        strat: S,
        f: impl Fn(&S::Value, &mut CaseRec) -> Result<(), String>,
    ) where
        S: Strategy,
        S::Value: Serialize + Debug + Clone,
    {
        if let Ok(only) = std::env::var("VERIF_ONLY") {
            if !only.split(',').any(|v| v == variant) {
                return;
            }
        }
        if !self.stats.failures.is_empty() && self.stats.failures.len() >= 3 {
            return;
        }
        let cases = self.share(total);
        if cases == 0 {
            return;
        }
        let t_variant = Instant::now();
        let _guard = VariantTimer { name: variant.to_string(), t: t_variant, verbose: std::env::var("VERIF_TIMING").is_ok() && self.worker == 0 };
        let cfg = Config {
            cases: cases as u32,
            failure_persistence: None,
            max_shrink_iters: 3000,
            max_shrink_time: 40_000,
            max_global_rejects: 1_000_000,
            verbose: 0,
            ..Config::default()
        };
        let rng = TestRng::from_seed(RngAlgorithm::ChaCha, &self.rng_seed(variant));
        let mut runner = TestRunner::new_with_rng(cfg, rng);
        let salted = !matches!(self.prop.as_str(), "C09" | "C10");
        let me = RefCell::new(&mut *self);
        let counting = RefCell::new(true);
        let last_fail: RefCell<Option<Fail>> = RefCell::new(None);
        let res = runner.run(&strat, |case| {
            let mut rec = CaseRec::default();
            if *counting.borrow() {
                let me = me.borrow();
                if me.announce_path.is_some() {
                    me.announce(&json!({"variant": variant, "case": serde_json::to_value(&case).unwrap()}));
                }
            }
            if salted {
                set_case_salt_from(&case);
            }
            let r = guarded(|| f(&case, &mut rec));
            let mut me = me.borrow_mut();
            match r {
                Ok(()) => {
                    if *counting.borrow() {
                        let key = key_of(&case);
                        me.account(rec, key, || serde_json::to_value(&case).unwrap());
                    }
                    Ok(())
                }
                Err(fail) => {
                    if fail.message.starts_with("[timeout]") {
                        if *counting.borrow() {
                            if me.stats.inconclusive.len() < 5 {
                                me.stats.inconclusive.push(fail.message.chars().take(300).collect());
                            }
                            let key = key_of(&case);
                            me.account(rec, key, || serde_json::to_value(&case).unwrap());
                        }
                        return Ok(());
                    }
                    if !me.strict {
                        if let Some(k) = me.match_known(&fail) {
                            if *counting.borrow() {
                                rec.known.push(k.id.clone());
                                let key = key_of(&case);
                                me.account(rec, key, || serde_json::to_value(&case).unwrap());
                            }
                            return Ok(());
                        }
                    }
                    if *counting.borrow() {
                        let key = key_of(&case);
                        me.account(rec, key, || serde_json::to_value(&case).unwrap());
                        *counting.borrow_mut() = false;
                    }
                    let m = fail.message.clone();
                    *last_fail.borrow_mut() = Some(fail);
                    Err(TestCaseError::fail(m))
                }
            }
        });
        drop(me);
        match res {
            Ok(()) => {}
            Err(TestError::Fail(reason, minimal)) => {
                // Re-run the minimal case once to get its own failure record (message/panic).
                let mut rec = CaseRec::default();
                set_case_salt_from(&minimal);
                let fail = match guarded(|| f(&minimal, &mut rec)) {
                    Err(fl) => fl,
                    Ok(()) => last_fail
                        .borrow()
                        .clone()
                        .unwrap_or_else(|| Fail::msg(reason.message().to_string())),
                };
                self.fail(variant, serde_json::to_value(&minimal).unwrap(), &fail);
            }
            Err(TestError::Abort(reason)) => {
                self.inconclusive(format!("{}: proptest aborted: {}", variant, reason.message()));
            }
        }
    }

    /// Draw `n` values from a strategy deterministically (used for building fixed pools of cases).
    pub fn sample_n<S: Strategy>(&self, variant: &str, strat: &S, n: usize) -> Vec<S::Value> {
        let cfg = Config {
            failure_persistence: None,
            ..Config::default()
        };
        let seed = blake2_seed32(&[&self.seed.to_le_bytes(), self.prop.as_bytes(), variant.as_bytes(), b"pool"]);
        let rng = TestRng::from_seed(RngAlgorithm::ChaCha, &seed);
        let mut runner = TestRunner::new_with_rng(cfg, rng);
        (0..n)
            .map(|_| strat.new_tree(&mut runner).expect("strategy").current())
            .collect()
    }
}

struct VariantTimer {
    name: String,
    t: Instant,
    verbose: bool,
}
impl Drop for VariantTimer {
    fn drop(&mut self) {
        if self.verbose {
            eprintln!("[timing] worker 0 variant {} took {:.1}s", self.name, self.t.elapsed().as_secs_f64());
        }
    }
}

pub fn signature_of(prop: &str, variant: &str, fail: &Fail) -> String {
    let core = match &fail.panic {
        Some(p) => format!("panic:{}:{}:{}", p.file, source_line(&p.file, p.line), p.message.chars().take(60).collect::<String>()),
        // message class = text before the first ':' (e.g. "rule", "tiling", "output differs")
        None => fail.message.split(':').next().unwrap_or("").chars().take(80).collect::<String>(),
    };
    format!("{:016x}", blake2_64(&[prop.as_bytes(), variant.as_bytes(), core.as_bytes()]))
}

/// Shorten long strings / arrays inside a sample so evidence stays readable.
pub fn shorten(v: Value) -> Value {
    match v {
        Value::String(s) if s.len() > 160 => Value::String(format!("{}…({} chars)", &s[..s.char_indices().nth(120).map(|x| x.0).unwrap_or(s.len())], s.len())),
        Value::Array(a) => {
            let n = a.len();
            let mut out: Vec<Value> = a.into_iter().take(24).map(shorten).collect();
            if n > 24 {
                out.push(Value::String(format!("…({} items)", n)));
            }
            Value::Array(out)
        }
        Value::Object(o) => Value::Object(o.into_iter().map(|(k, v)| (k, shorten(v))).collect()),
        other => other,
    }
}

// ---------------------------------------------------------------------------------------
// property trait + parent driver

pub struct Meta {
    pub level: &'static str, // exploration | fault_enumeration
    pub rule: String,
    pub assumptions: Vec<String>,
    pub conventions: Vec<String>,
    pub announce: bool,
    /// what a dead worker means for this property: true => violation (C15), false => inconclusive
    pub dead_worker_is_violation: bool,
    pub max_workers: usize,
}
impl Default for Meta {
    fn default() -> Self {
        Meta {
            level: "exploration",
            rule: String::new(),
            assumptions: vec![],
            conventions: vec![],
            announce: false,
            dead_worker_is_violation: false,
            max_workers: 16,
        }
    }
}

pub trait Prop: Sync {
    fn id(&self) -> &'static str;
    fn meta(&self, tier: Tier) -> Meta;
    fn run_worker(&self, cx: &mut WorkerCtx);
    /// Strict replay of one saved case. Ok = property held on it.
    fn replay(&self, cx: &mut WorkerCtx, variant: &str, case: &Value) -> Result<(), String>;
}

fn work_dir(prop: &str) -> PathBuf {
    let p = Path::new(&verif_root()).join("target/work").join(prop);
    let _ = std::fs::create_dir_all(&p);
    p
}
pub fn scratch_dir(prop: &str, worker: usize) -> PathBuf {
    let p = Path::new(&verif_root())
        .join("target/work")
        .join(prop)
        .join(format!("w{}-{}", worker, std::process::id()));
    let _ = std::fs::remove_dir_all(&p);
    std::fs::create_dir_all(&p).unwrap();
    p
}

pub fn worker_main(prop: &dyn Prop, tier: Tier, seed: u64, worker: usize, nworkers: usize, out: &Path) {
    install_panic_hook();
    let _ = CURRENT_PROP.set(prop.id().to_string());
    let meta = prop.meta(tier);
    let mut cx = WorkerCtx::new(prop.id(), tier, seed, worker, nworkers);
    if meta.announce {
        cx.announce_path = Some(out.with_extension("current"));
    }
    prop.run_worker(&mut cx);
    cx.stats.nontrivial_keys = cx.nontrivial.iter().copied().collect();
    let tmp = out.with_extension("tmp");
    std::fs::write(&tmp, serde_json::to_vec(&cx.stats).unwrap()).unwrap();
    std::fs::rename(&tmp, out).unwrap();
}

pub fn replay_main(prop: &dyn Prop, path: &Path) -> i32 {
    install_panic_hook();
    let _ = CURRENT_PROP.set(prop.id().to_string());
    let txt = match std::fs::read_to_string(path) {
        Ok(t) => t,
        Err(e) => {
            eprintln!("cannot read replay file {}: {}", path.display(), e);
            return 2;
        }
    };
    let v: Value = serde_json::from_str(&txt).expect("replay json");
    let variant = v["variant"].as_str().unwrap_or("").to_string();
    let mut cx = WorkerCtx::new(prop.id(), Tier::Quick, 1, 0, 1);
    cx.strict = true;
    // a replay that does not end is itself the reproduction of an unbounded loop: report it instead of hanging
    {
        let limit: u64 = std::env::var("VERIF_REPLAY_DEADLINE_S").ok().and_then(|s| s.parse().ok()).unwrap_or(600);
        let (pid, pth) = (prop.id().to_string(), path.display().to_string());
        std::thread::spawn(move || {
            std::thread::sleep(std::time::Duration::from_secs(limit));
            println!("replay {}: did not finish within {} s (unbounded loop or hang)", pth, limit);
            println!("VIOLATION property={} replay={}", pid, pth);
            std::process::exit(1);
        });
    }
    set_case_salt_from(&v["case"]);
    let r = guarded(|| prop.replay(&mut cx, &variant, &v["case"]));
    match r {
        Ok(()) => {
            println!("replay {}: property held", path.display());
            0
        }
        Err(f) => {
            println!("replay {}: {}", path.display(), f.message);
            println!("VIOLATION property={} replay={}", prop.id(), path.display());
            1
        }
    }
}

/// Regression tier: every committed replay file of this property must hold.
fn regression_tier(prop: &dyn Prop, stats: &mut Stats) -> Vec<(PathBuf, String)> {
    let dir = Path::new(&verif_root()).join("replays").join(prop.id());
    let mut bad = vec![];
    let Ok(rd) = std::fs::read_dir(&dir) else { return bad };
    let mut files: Vec<PathBuf> = rd
        .filter_map(|e| e.ok().map(|e| e.path()))
        .filter(|p| p.extension().map(|e| e == "json").unwrap_or(false))
        .collect();
    files.sort();
    for p in files {
        let Ok(txt) = std::fs::read_to_string(&p) else { continue };
        let Ok(v) = serde_json::from_str::<Value>(&txt) else { continue };
        let variant = v["variant"].as_str().unwrap_or("").to_string();
        let mut cx = WorkerCtx::new(prop.id(), Tier::Quick, 1, 0, 1);
        // known (open) findings stay tolerated in the regression tier; everything else is strict
        let r = guarded(|| prop.replay(&mut cx, &variant, &v["case"]));
        *stats.levels.entry("regression_replays".into()).or_insert(0) += 1;
        if let Err(f) = r {
            if cx.match_known(&f).is_none() {
                bad.push((p.clone(), f.message));
            } else {
                *stats.known_hits.entry(cx.match_known(&f).unwrap().id).or_insert(0) += 1;
            }
        }
    }
    bad
}

pub fn parent_main(prop: &dyn Prop, tier: Tier, seed: u64, workers_req: usize) -> i32 {
    install_panic_hook();
    let t0 = Instant::now();
    let id = prop.id();
    let meta = prop.meta(tier);
    let nworkers = workers_req.min(meta.max_workers).max(1);
    let wd = work_dir(id);
    let run_tag = format!("run-{}", std::process::id());
    let run_dir = wd.join(&run_tag);
    let _ = std::fs::remove_dir_all(&run_dir);
    std::fs::create_dir_all(&run_dir).unwrap();

    let mut total = Stats::default();
    let mut violations: Vec<(String, String)> = vec![]; // (replay path, message)

    // 1. regression tier
    for (p, m) in regression_tier(prop, &mut total) {
        println!("regression replay failed: {}: {}", p.display(), m);
        violations.push((p.display().to_string(), m));
    }

    // 2. workers
    let exe = std::env::current_exe().unwrap();
    let mut children = vec![];
    for w in 0..nworkers {
        let out = run_dir.join(format!("w{}.json", w));
        let child = std::process::Command::new(&exe)
            .arg(id)
            .arg("--tier")
            .arg(tier.name())
            .arg("--worker")
            .arg(format!("{}/{}", w, nworkers))
            .arg("--out")
            .arg(&out)
            .env("VERIF_SEED", seed.to_string())
            .env("RUST_BACKTRACE", "0")
            .stdin(std::process::Stdio::null())
            .spawn()
            .expect("spawn worker");
        children.push((w, out, child));
    }
    let mut nontrivial: BTreeSet<u64> = BTreeSet::new();
    let mut inconclusive: Vec<String> = vec![];
    let mut failures: Vec<Failure> = vec![];
    // watchdog: a run that exceeds its wall-clock budget is INCONCLUSIVE (exit 2), never a violation
    let budget_s: u64 = std::env::var("VERIF_DEADLINE_S").ok().and_then(|s| s.parse().ok()).unwrap_or(match tier {
        Tier::Quick => 1500,
        Tier::Thorough => 5 * 3600,
    });
    let deadline = Instant::now() + std::time::Duration::from_secs(budget_s);
    // Per-case stall detection for checks that announce every case (C15, C04): a worker whose announced case has not
    // changed for `hang_s` seconds is stopped and the case is re-run in a fresh process under a second, longer limit;
    // only if it does not finish there either is it reported — as a violation of "never loops without bound" for C15,
    // as inconclusive elsewhere. Both limits are orders of magnitude above the milliseconds such a case normally takes.
    let hang_s: u64 = std::env::var("VERIF_HANG_S").ok().and_then(|s| s.parse().ok()).unwrap_or(150);
    let confirm_s: u64 = std::env::var("VERIF_HANG_CONFIRM_S").ok().and_then(|s| s.parse().ok()).unwrap_or(240);
    let mut hung_failures: Vec<Failure> = vec![];
    let mut statuses: Vec<(usize, PathBuf, std::process::ExitStatus, bool)> = vec![];
    let mut live: Vec<(usize, PathBuf, std::process::Child)> = children;
    while !live.is_empty() {
        let mut still = vec![];
        for (w, out, mut child) in live {
            match child.try_wait().expect("wait worker") {
                Some(st) => statuses.push((w, out, st, false)),
                None => {
                    if Instant::now() > deadline {
                        let _ = child.kill();
                        let st = child.wait().expect("wait worker");
                        inconclusive.push(format!("worker {} exceeded the wall-clock budget of {} s and was stopped (hang or overload; inconclusive)", w, budget_s));
                        statuses.push((w, out, st, true));
                        continue;
                    }
                    let cur = out.with_extension("current");
                    let stalled = meta.announce
                        && std::fs::metadata(&cur).ok().and_then(|m| m.modified().ok()).and_then(|t| t.elapsed().ok()).map(|e| e.as_secs() > hang_s).unwrap_or(false);
                    if !hung_failures.is_empty() {
                        // a hang has been confirmed already in this pass: just stop the others
                        let _ = child.kill();
                        let st = child.wait().expect("wait worker");
                        statuses.push((w, out, st, true));
                        continue;
                    }
                    if stalled {
                        let _ = child.kill();
                        let st = child.wait().expect("wait worker");
                        let curv = std::fs::read(&cur).ok().and_then(|b| serde_json::from_slice::<Value>(&b).ok());
                        if let Some(curv) = curv {
                            // confirm in a fresh process
                            let tmp = run_dir.join(format!("stalled-w{}.json", w));
                            let doc = json!({"property": id, "variant": curv["variant"], "case": curv["case"], "seed": seed});
                            let _ = std::fs::write(&tmp, serde_json::to_vec(&doc).unwrap());
                            let mut c = std::process::Command::new(&exe).arg(id).arg("--replay").arg(&tmp).env("VERIF_REPLAY_DEADLINE_S", (confirm_s + 60).to_string()).stdout(std::process::Stdio::null()).stderr(std::process::Stdio::null()).spawn().expect("spawn confirm");
                            let t0c = Instant::now();
                            let verdict = loop {
                                match c.try_wait().expect("wait confirm") {
                                    Some(s) => break Some(s),
                                    None if t0c.elapsed().as_secs() > confirm_s => {
                                        let _ = c.kill();
                                        let _ = c.wait();
                                        break None;
                                    }
                                    None => std::thread::sleep(std::time::Duration::from_millis(100)),
                                }
                            };
                            match verdict {
                                None => {
                                    let f = Failure {
                                        variant: curv["variant"].as_str().unwrap_or("").to_string(),
                                        case: curv["case"].clone(),
                                        message: format!("[hang] the case did not finish within {} s in its worker and again not within {} s in a fresh process (it normally takes milliseconds): unbounded loop", hang_s, confirm_s),
                                        signature: format!("{:016x}", blake2_64(&[id.as_bytes(), b"hang", curv.to_string().as_bytes()])),
                                    };
                                    if meta.dead_worker_is_violation {
                                        hung_failures.push(f);
                                    } else {
                                        inconclusive.push(format!("worker {}: {}", w, f.message));
                                    }
                                }
                                Some(s) if s.code() == Some(1) => hung_failures.push(Failure {
                                    variant: curv["variant"].as_str().unwrap_or("").to_string(),
                                    case: curv["case"].clone(),
                                    message: "the case stalled in its worker and fails when replayed in a fresh process".to_string(),
                                    signature: format!("{:016x}", blake2_64(&[id.as_bytes(), b"stall-fail", curv.to_string().as_bytes()])),
                                }),
                                Some(_) => inconclusive.push(format!("worker {} stalled for more than {} s on one case, which completed when replayed (overload?); the rest of its shard was not run", w, hang_s)),
                            }
                        } else {
                            inconclusive.push(format!("worker {} stalled without an announced case", w));
                        }
                        statuses.push((w, out, st, true));
                        continue;
                    }
                    still.push((w, out, child));
                }
            }
        }
        live = still;
        if !hung_failures.is_empty() {
            // a confirmed hang is a violation already: stop the remaining workers instead of waiting for each of them
            // to run into the same loop
            for (w, out, mut child) in live.drain(..) {
                let _ = child.kill();
                let st = child.wait().expect("wait worker");
                statuses.push((w, out, st, true));
            }
        }
        if !live.is_empty() {
            std::thread::sleep(std::time::Duration::from_millis(50));
        }
    }
    statuses.sort_by_key(|s| s.0);
    for (w, out, status, stopped_by_us) in statuses {
        let stats: Option<Stats> = std::fs::read(&out).ok().and_then(|b| serde_json::from_slice(&b).ok());
        match stats {
            Some(s) if status.success() => {
                total.evaluations += s.evaluations;
                nontrivial.extend(s.nontrivial_keys.iter().copied());
                for (k, v) in s.classes {
                    *total.classes.entry(k).or_insert(0) += v;
                }
                for (k, v) in s.excluded {
                    *total.excluded.entry(k).or_insert(0) += v;
                }
                for (k, v) in s.known_hits {
                    *total.known_hits.entry(k).or_insert(0) += v;
                }
                for (k, v) in s.exhaustive {
                    *total.exhaustive.entry(k).or_insert(0) += v;
                }
                for (k, v) in s.levels {
                    *total.levels.entry(k).or_insert(0) += v;
                }
                for smp in s.samples {
                    if total.samples.len() < 8 {
                        total.samples.push(smp);
                    }
                }
                for n in s.notes {
                    if !total.notes.contains(&n) {
                        total.notes.push(n);
                    }
                }
                inconclusive.extend(s.inconclusive);
                failures.extend(s.failures);
            }
            _ => {
                // worker died (abort, OOM kill, ...)
                let cur = std::fs::read(out.with_extension("current"))
                    .ok()
                    .and_then(|b| serde_json::from_slice::<Value>(&b).ok());
                let desc = format!("worker {} died with {:?}", w, status);
                let by_watchdog = stopped_by_us;
                if by_watchdog {
                    // already accounted for above (budget overrun or stalled case)
                } else if meta.dead_worker_is_violation {
                    if let Some(cur) = cur {
                        failures.push(Failure {
                            variant: cur["variant"].as_str().unwrap_or("").to_string(),
                            case: cur["case"].clone(),
                            message: format!("[abort] {} while running the announced case", desc),
                            signature: format!("{:016x}", blake2_64(&[id.as_bytes(), b"abort", cur.to_string().as_bytes()])),
                        });
                    } else {
                        inconclusive.push(desc);
                    }
                } else {
                    inconclusive.push(desc);
                }
            }
        }
    }

    failures.extend(hung_failures);
    // 3. failures -> replay files
    let known = load_known_findings();
    let new_dir = Path::new(&verif_root()).join("replays").join(id).join("new");
    let mut seen_sig = BTreeSet::new();
    // smallest case first, one replay per signature
    failures.sort_by_key(|f| f.case.to_string().len());
    for f in &failures {
        if !seen_sig.insert(f.signature.clone()) {
            continue;
        }
        let _ = std::fs::create_dir_all(&new_dir);
        let path = new_dir.join(format!("{}.json", f.signature));
        let doc = json!({
            "property": id, "variant": f.variant, "seed": seed, "tier": tier.name(),
            "case": f.case, "observed": f.message, "signature": f.signature,
        });
        std::fs::write(&path, serde_json::to_vec_pretty(&doc).unwrap()).unwrap();
        violations.push((path.display().to_string(), f.message.clone()));
    }

    // 4. report
    for (kid, n) in &total.known_hits {
        let what = known
            .iter()
            .find(|k| &k.id == kid && k.property == id)
            .map(|k| k.what.clone())
            .unwrap_or_default();
        println!("KNOWN-FINDING: property={} {} {} (hit {} times)", id, kid, what, n);
    }
    let wall = t0.elapsed().as_secs_f64();
    let distinct_nontrivial = nontrivial.len() as u64;
    let mut coverage = json!({
        "evaluations": total.evaluations,
        "distinct_nontrivial": distinct_nontrivial,
        "rule": meta.rule,
        "samples": total.samples,
        "classes": total.classes,
        "excluded": total.excluded,
        "known_finding_hits": total.known_hits,
        "levels": total.levels,
        "exhaustive_subdomains": total.exhaustive,
        "conventions": meta.conventions,
        "workers": nworkers,
        "notes": total.notes,
        "inconclusive": inconclusive,
    });
    if let Ok(fp) = std::env::var("BVERIF_FUZZ_STATS") {
        if let Some(fz) = std::fs::read(&fp).ok().and_then(|b| serde_json::from_slice::<Value>(&b).ok()) {
            if let Some(v) = fz["violations"].as_array() {
                for line in v {
                    if let Some(l) = line.as_str() {
                        let path = l.split("replay=").nth(1).unwrap_or("").to_string();
                        violations.push((path, "libFuzzer campaign: the in-target oracle failed".to_string()));
                    }
                }
            }
            if fz["crashing_processes"].as_u64().unwrap_or(0) > 0 && fz["violations"].as_array().map(|a| a.is_empty()).unwrap_or(true) {
                violations.push((format!("{}/target/fuzzwork/{}", verif_root(), id), "libFuzzer campaign: a fuzz process crashed (see the artifact directory)".to_string()));
            }
            coverage["fuzz"] = fz;
        }
    }
    if !total.exhaustive.is_empty() {
        coverage["exhaustive"] = json!(false);
        coverage["explanation"] = json!("exhaustive_subdomains lists the finite sub-domains that were enumerated completely (name -> number of cases); the run as a whole also contains sampled cases, hence exhaustive=false");
    }
    let evidence = json!({
        "property_id": id,
        "tier": tier.name(),
        "seed": seed,
        "level": meta.level,
        "coverage": coverage,
        "assumptions": meta.assumptions,
        "wall_s": wall,
        "violations": violations.len(),
    });
    let evdir = Path::new(&verif_root()).join("evidence");
    let _ = std::fs::create_dir_all(&evdir);
    // partial runs (VERIF_ONLY=<variants>, a development aid) never overwrite the real evidence file
    let evname = if std::env::var("VERIF_ONLY").is_ok() { format!("{}.only.json", id) } else { format!("{}.json", id) };
    let evtmp = evdir.join(format!("{}.json.tmp", id));
    std::fs::write(&evtmp, serde_json::to_vec_pretty(&evidence).unwrap()).unwrap();
    std::fs::rename(&evtmp, evdir.join(evname)).unwrap();
    let _ = std::fs::remove_dir_all(&run_dir);

    println!(
        "{} {}: {} evaluations, {} distinct non-trivial, {} violation(s), {:.1}s",
        id,
        tier.name(),
        total.evaluations,
        distinct_nontrivial,
        violations.len(),
        wall
    );
    let mut top: Vec<_> = total.classes.iter().collect();
    top.sort_by(|a, b| b.1.cmp(a.1));
    let cls: Vec<String> = top.iter().take(40).map(|(k, v)| format!("{}={}", k, v)).collect();
    println!("classes: {}", cls.join(" "));
    if !total.excluded.is_empty() {
        println!("excluded: {:?}", total.excluded);
    }
    if !violations.is_empty() {
        for (p, m) in &violations {
            println!("  failure: {}", m.lines().next().unwrap_or(""));
            println!("VIOLATION property={} replay={}", id, p);
        }
        return 1;
    }
    if !inconclusive.is_empty() {
        for i in &inconclusive {
            println!("INCONCLUSIVE: {}", i);
        }
        return 2;
    }
    let _ = std::io::stdout().flush();
    0
}
