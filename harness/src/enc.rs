//! Independent archive encoder (built on R2) for C17 / C07 / C15: produces format-conforming archives
//! with layouts bita's own writer never emits.
#![allow(dead_code)]

use crate::gen::*;
use crate::refs::format as fmt;
use crate::scen::{model_chunks, MChunk};
use serde::{Deserialize, Serialize};
use std::collections::{BTreeMap, HashMap};

#[derive(Clone, Debug, Default, Serialize, Deserialize, PartialEq)]
pub struct EncSpec {
    pub legacy_magic: bool,
    /// junk bytes between the header end and the chunk data offset
    pub slack: u16,
    /// file order of the stored chunks: sort key per descriptor (ties by index); empty = dictionary order
    pub order_keys: Vec<u16>,
    /// padding bytes before each stored chunk (cycled); empty = none
    pub gaps: Vec<u8>,
    /// per descriptor (cycled): 0 = compress if smaller (like bita), 1 = store raw, 2 = store compressed even if larger
    pub storage: Vec<u8>,
    pub unknowns: fmt::Unknowns,
    pub opts: fmt::EncodeOpts,
    pub metadata: BTreeMap<String, Vec<u8>>,
    pub version: String,
    /// trailing junk after the last stored chunk
    pub trailing: u8,
    /// order of the descriptor TABLE: sort key per descriptor (ties by index); empty = order of first occurrence in the
    /// source (what bita's writers produce). The schema does not tie the table order to anything: rebuild_order indexes it.
    #[serde(default)]
    pub desc_keys: Vec<u16>,
    /// record this compression level in the header instead of the one the encoder used. The schema leaves the field
    /// free (uint32) and a reader needs only the algorithm to decompress: another tool may record 0 (e.g. Brotli quality 0)
    /// or a scale of its own.
    #[serde(default)]
    pub recorded_level: Option<u32>,
}

pub struct Encoded {
    pub bytes: Vec<u8>,
    pub dict: fmt::Dictionary,
    pub header_len: usize,
    pub chunk_data_offset: u64,
    pub chunks: Vec<MChunk>,
    /// absolute (offset, size) of each descriptor's stored bytes, in dictionary order
    pub stored: Vec<(u64, usize)>,
    pub raw_under_compression: usize,
    pub compressed_larger: usize,
    pub truncated_collision: bool,
}

pub fn own_compress(comp: Comp, data: &[u8]) -> Vec<u8> {
    use std::io::Write;
    match comp {
        Comp::None => data.to_vec(),
        Comp::Brotli(l) => {
            let mut out = Vec::new();
            {
                let mut w = brotli::CompressorWriter::new(&mut out, 4096, l.min(11), 20);
                w.write_all(data).unwrap();
            }
            out
        }
        Comp::Zstd(l) => zstd::stream::encode_all(data, l.min(19) as i32).unwrap(),
        Comp::Lzma(l) => lzma::compress(data, l.min(6)).unwrap(),
    }
}

pub fn comp_fields(c: Comp) -> fmt::ChunkCompression {
    match c {
        Comp::None => fmt::ChunkCompression { compression: 0, compression_level: 0 },
        Comp::Lzma(l) => fmt::ChunkCompression { compression: 1, compression_level: l },
        Comp::Zstd(l) => fmt::ChunkCompression { compression: 2, compression_level: l },
        Comp::Brotli(l) => fmt::ChunkCompression { compression: 3, compression_level: l },
    }
}
pub fn params_fields(c: &ChunkerCfg, hash_len: usize) -> fmt::ChunkerParams {
    match c.algo {
        Algo::FixedSize => fmt::ChunkerParams { chunk_filter_bits: 0, min_chunk_size: 0, max_chunk_size: c.max as u32, rolling_hash_window_size: 0, chunk_hash_length: hash_len as u32, chunking_algorithm: 2 },
        _ => fmt::ChunkerParams {
            chunk_filter_bits: c.bits,
            min_chunk_size: c.min as u32,
            max_chunk_size: c.max as u32,
            rolling_hash_window_size: c.window as u32,
            chunk_hash_length: hash_len as u32,
            chunking_algorithm: if c.algo == Algo::BuzHash { 0 } else { 1 },
        },
    }
}

pub fn encode_archive(source: &[u8], cfg: &ArchCfg, spec: &EncSpec) -> Encoded {
    let chunks = model_chunks(&cfg.chunker, source);
    let hl = cfg.hash_len;
    // unique chunks in order of first occurrence
    let mut index_of: HashMap<[u8; 64], u32> = HashMap::new();
    let mut by_trunc: HashMap<Vec<u8>, [u8; 64]> = HashMap::new();
    let mut collision = false;
    let mut uniq: Vec<&MChunk> = vec![];
    let mut rebuild = vec![];
    for m in &chunks {
        let ix = *index_of.entry(m.full).or_insert_with(|| {
            uniq.push(m);
            (uniq.len() - 1) as u32
        });
        rebuild.push(ix);
        match by_trunc.get(&m.key(hl)) {
            Some(f) if *f != m.full => collision = true,
            _ => {
                by_trunc.insert(m.key(hl), m.full);
            }
        }
    }
    // stored form of each descriptor
    let mut raw_under = 0;
    let mut larger = 0;
    let stored_bytes: Vec<Vec<u8>> = uniq
        .iter()
        .enumerate()
        .map(|(i, m)| {
            let plain = &source[m.off..m.off + m.len];
            if cfg.comp == Comp::None {
                return plain.to_vec();
            }
            let mode = if spec.storage.is_empty() { 0 } else { spec.storage[i % spec.storage.len()] % 3 };
            let c = own_compress(cfg.comp, plain);
            let use_c = match mode {
                0 => c.len() < plain.len(),
                1 => false,
                _ => c.len() != plain.len(), // never compressed with stored size == source size
            };
            if use_c {
                if c.len() > plain.len() {
                    larger += 1;
                }
                c
            } else {
                raw_under += 1;
                plain.to_vec()
            }
        })
        .collect();
    // file order
    let mut order: Vec<usize> = (0..uniq.len()).collect();
    if !spec.order_keys.is_empty() {
        order.sort_by_key(|i| (spec.order_keys[*i % spec.order_keys.len()], *i));
    }
    let mut data = Vec::new(); // relative to the chunk data offset
    let mut rel: Vec<(u64, usize)> = vec![(0, 0); uniq.len()];
    for (n, &i) in order.iter().enumerate() {
        let gap = if spec.gaps.is_empty() { 0 } else { spec.gaps[n % spec.gaps.len()] as usize };
        data.extend(std::iter::repeat(0xA7u8).take(gap));
        rel[i] = (data.len() as u64, stored_bytes[i].len());
        data.extend_from_slice(&stored_bytes[i]);
    }
    data.extend(std::iter::repeat(0x5Cu8).take(spec.trailing as usize));
    let dict = fmt::Dictionary {
        application_version: spec.version.clone(),
        source_checksum: crate::util::blake2b512(source),
        source_total_size: source.len() as u64,
        chunker_params: Some(params_fields(&cfg.chunker, hl)),
        chunk_compression: Some(match (spec.recorded_level, cfg.comp) {
            (Some(l), c) if c != Comp::None => {
                let mut f = comp_fields(c);
                f.compression_level = l;
                f
            }
            (_, c) => comp_fields(c),
        }),
        rebuild_order: rebuild,
        chunk_descriptors: uniq
            .iter()
            .enumerate()
            .map(|(i, m)| fmt::Descriptor { checksum: m.key(hl), archive_size: rel[i].1 as u32, archive_offset: rel[i].0, source_size: m.len as u32 })
            .collect(),
        metadata: spec.metadata.clone(),
        unknown_fields: 0,
    };
    let mut dict = dict;
    let mut rel = rel;
    if !spec.desc_keys.is_empty() && dict.chunk_descriptors.len() > 1 {
        let n = dict.chunk_descriptors.len();
        let mut perm: Vec<usize> = (0..n).collect();
        perm.sort_by_key(|i| (spec.desc_keys[*i % spec.desc_keys.len()], *i));
        let mut new_index = vec![0u32; n];
        for (pos, &old) in perm.iter().enumerate() {
            new_index[old] = pos as u32;
        }
        dict.chunk_descriptors = perm.iter().map(|&old| dict.chunk_descriptors[old].clone()).collect();
        rel = perm.iter().map(|&old| rel[old]).collect();
        for r in dict.rebuild_order.iter_mut() {
            *r = new_index[*r as usize];
        }
    }
    let dict_bytes = fmt::encode_dictionary(&dict, &spec.opts, &spec.unknowns);
    let header_len = fmt::header_len_for(dict_bytes.len());
    let chunk_data_offset = (header_len + spec.slack as usize) as u64;
    let mut bytes = fmt::build_header_raw(spec.legacy_magic, dict_bytes.len() as u64, &dict_bytes, chunk_data_offset);
    bytes.extend(std::iter::repeat(0x3Eu8).take(spec.slack as usize));
    bytes.extend_from_slice(&data);
    let stored = rel.iter().map(|(o, n)| (chunk_data_offset + o, *n)).collect();
    Encoded { bytes, dict, header_len, chunk_data_offset, chunks, stored, raw_under_compression: raw_under, compressed_larger: larger, truncated_collision: collision }
}
