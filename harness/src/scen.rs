//! Shared scenario pieces: R3 (reference clone model), archive production through both writers,
//! corner-chunk mining, collision guard.
#![allow(dead_code)]

use crate::gen::*;
use crate::l2;
use crate::refs::chunker::ref_chunks;
use crate::refs::format as fmt;
use serde::{Deserialize, Serialize};
use std::collections::{BTreeMap, HashMap};
use std::path::Path;
use std::sync::Arc;

pub fn full_hash(data: &[u8]) -> [u8; 64] {
    let v = crate::util::blake2b512(data);
    v.try_into().unwrap()
}

#[derive(Clone, Debug)]
pub struct MChunk {
    pub off: usize,
    pub len: usize,
    pub full: [u8; 64],
}
impl MChunk {
    pub fn key(&self, hash_len: usize) -> Vec<u8> {
        self.full[..hash_len.min(64)].to_vec()
    }
}

/// R1 chunks of `data`, hashed with the harness's own Blake2b-512.
pub fn model_chunks(cfg: &ChunkerCfg, data: &[u8]) -> Vec<MChunk> {
    ref_chunks(cfg, data, data.len() <= 1024)
        .into_iter()
        .map(|c| MChunk { off: c.offset, len: c.len, full: full_hash(&data[c.offset..c.offset + c.len]) })
        .collect()
}

/// Exact collision guard: two different chunk contents sharing a truncated hash (possible by design at
/// short hash lengths). `streams` = all chunk lists that take part in a scenario.
pub fn has_truncated_collision(hash_len: usize, streams: &[&[MChunk]]) -> bool {
    let mut seen: HashMap<Vec<u8>, [u8; 64]> = HashMap::new();
    for s in streams {
        for c in s.iter() {
            let k = c.key(hash_len);
            match seen.get(&k) {
                Some(f) if *f != c.full => return true,
                Some(_) => {}
                None => {
                    seen.insert(k, c.full);
                }
            }
        }
    }
    false
}

#[derive(Clone, Copy, Debug, Serialize, Deserialize, PartialEq, Eq)]
pub enum Writer {
    Lib,
    Cli,
    CliStdin,
}

/// Produce an archive with the CLI writer in `dir`. Returns archive bytes.
pub fn compress_cli(dir: &Path, tag: &str, source: &[u8], cfg: &ArchCfg, stdin: bool, metadata: &[MetaArg], hook: Option<&l2::Hook>) -> Result<(Vec<u8>, l2::RunOut), String> {
    compress_cli_over(dir, tag, source, cfg, stdin, metadata, hook, None, None)
}

/// `existing`: content already present at the archive path; the command is then run with --force-create.
/// `stale_tmp`: content of a temporary chunk file left behind at the temp path by an earlier, failed run.
pub fn compress_cli_over(dir: &Path, tag: &str, source: &[u8], cfg: &ArchCfg, stdin: bool, metadata: &[MetaArg], hook: Option<&l2::Hook>, existing: Option<&[u8]>, stale_tmp: Option<&[u8]>) -> Result<(Vec<u8>, l2::RunOut), String> {
    let src_name = format!("{}.src", tag);
    let arch_name = format!("{}.cba", tag);
    let _ = std::fs::remove_file(dir.join(&arch_name));
    if let Some(e) = existing {
        l2::write_file(&dir.join(&arch_name), e);
    }
    // the CLI derives the temp path from the output path: Path::with_extension(output, ".tmp")
    let tmp_path = Path::new(&arch_name).with_extension(".tmp");
    let _ = std::fs::remove_file(dir.join(&tmp_path));
    if let Some(t) = stale_tmp {
        l2::write_file(&dir.join(&tmp_path), t);
    }
    if !stdin {
        l2::write_file(&dir.join(&src_name), source);
    }
    // a pipe can reach `bita compress` in three ways: as its stdin (no -i), as `-i /dev/stdin`, or as a named pipe given to
    // -i. Which one is a function of the case (a replay makes the same choice); all three are the same input stream.
    let fifo_name = format!("{}.fifo", tag);
    let pipe_kind = if stdin && std::env::var("BVERIF_NO_VERBOSITY").is_err() { crate::engine::blake2_64(&[&crate::engine::case_salt().to_le_bytes(), b"pipe-kind", tag.as_bytes()]) % 4 } else { 2 };
    let input_arg: Option<&str> = match (stdin, pipe_kind) {
        (false, _) => Some(&src_name),
        (true, 0) => Some("/dev/stdin"),
        (true, 1) => Some(&fifo_name),
        _ => None,
    };
    let mut fifo_writer = None;
    if stdin && pipe_kind == 1 {
        fifo_writer = Some(l2::FifoFeeder::start(&dir.join(&fifo_name), source.to_vec())?);
    }
    let mut args = l2::compress_args(cfg, input_arg, &arch_name, existing.is_some());
    // metadata options go before the positional output
    let out = args.pop().unwrap();
    for (i, m) in metadata.iter().enumerate() {
        match m {
            MetaArg::Value(k, v) => {
                args.push("--metadata-value".into());
                args.push(k.clone());
                args.push(v.clone());
            }
            MetaArg::File(k, bytes) => {
                let f = format!("{}.meta{}", tag, i);
                l2::write_file(&dir.join(&f), bytes);
                args.push("--metadata-file".into());
                args.push(k.clone());
                args.push(f);
            }
        }
    }
    args.push(out);
    let mut spec = l2::RunSpec { args, stdin: if stdin && pipe_kind != 1 { Some(source.to_vec()) } else { None }, ..Default::default() };
    let log = dir.join(format!("{}.hooklog", tag));
    if let Some(h) = hook {
        spec.shim = true;
        spec.env = h.env(&log);
    }
    let r = l2::run_bita(dir, &spec);
    if let Some(f) = fifo_writer {
        f.finish();
    }
    if r.timed_out {
        return Err(format!("[timeout] bita compress did not finish: {}", r.describe()));
    }
    if !r.ok() {
        return Err(format!("bita compress failed: {}", r.describe()));
    }
    let bytes = std::fs::read(dir.join(&arch_name)).map_err(|e| format!("bita compress exit 0 but archive unreadable: {}", e))?;
    Ok((bytes, r))
}

#[derive(Clone, Debug, Serialize, Deserialize, PartialEq)]
pub enum MetaArg {
    Value(String, String),
    File(String, Vec<u8>),
}
pub fn metadata_map(m: &[MetaArg]) -> BTreeMap<String, Vec<u8>> {
    // CLI semantics (src/compress_cmd.rs): strings first, then files; later insert wins
    let mut map = BTreeMap::new();
    for a in m {
        if let MetaArg::Value(k, v) = a {
            map.insert(k.clone(), v.as_bytes().to_vec());
        }
    }
    for a in m {
        if let MetaArg::File(k, v) = a {
            map.insert(k.clone(), v.clone());
        }
    }
    map
}

/// Clone with the CLI. `extra` = extra args before the positionals. Returns (RunOut, output bytes if the file exists).
pub fn clone_cli(dir: &Path, archive: &str, output: &str, extra: &[String], stdin: Option<Vec<u8>>, hook: Option<(&l2::Hook, &Path)>, hook_build: bool, env: &[(String, String)]) -> (l2::RunOut, Option<Vec<u8>>) {
    let mut args: Vec<String> = vec!["clone".into()];
    args.extend(extra.iter().cloned());
    args.push(archive.into());
    args.push(output.into());
    let mut spec = l2::RunSpec { args, stdin, hook_build, ..Default::default() };
    if let Some((h, log)) = hook {
        spec.shim = true;
        spec.env = h.env(log);
    }
    spec.env.extend(env.iter().cloned());
    let r = l2::run_bita(dir, &spec);
    let out = std::fs::read(dir.join(output)).ok();
    (r, out)
}

/// Short byte strings whose compressed size under (codec, level) is exactly their length — the
/// corner of the "store raw iff compressed is not smaller" rule. Mined with bitar's public
/// Chunk::compress (classification only; the oracle never depends on it).
pub fn mine_corners(comp: Comp, max_len: usize) -> Vec<Vec<u8>> {
    let mut out = vec![];
    let Some(c) = comp.to_bitar() else { return out };
    let mut r = SplitMix(0xC0C0);
    for len in 1..=max_len {
        let mut cands: Vec<Vec<u8>> = vec![vec![0u8; len], vec![0x41u8; len]];
        let mut t = Vec::new();
        SplitMix(len as u64).fill(&mut t, len);
        cands.push(t.clone());
        // half constant, half random
        let mut h = vec![0u8; len / 2];
        r.fill(&mut h, len - len / 2);
        cands.push(h);
        let mut txt = expand(&vec![Seg::Text { n: len as u32, seed: len as u32 }]);
        txt.truncate(len);
        cands.push(txt);
        for cand in cands {
            if cand.len() != len {
                continue;
            }
            if let Ok(cc) = bitar::Chunk::from(cand.clone()).compress(Some(c)) {
                if cc.len() == len {
                    out.push(cand);
                }
            }
        }
    }
    out
}

pub fn arc(v: Vec<u8>) -> Arc<Vec<u8>> {
    Arc::new(v)
}

/// Decode with R2 and return (header, descriptors with absolute ranges).
pub fn decode(archive: &[u8]) -> Result<fmt::Header, String> {
    fmt::decode_header(archive)
}

// =======================================================================================
// Clone scenarios + R3 expectations

use crate::iod::{ReadRec, WriteRec};
use crate::l1::{CloneOpts, CloneReport};
use proptest::prelude::*;
use std::collections::{BTreeSet, HashSet};

#[derive(Clone, Debug, Serialize, Deserialize)]
pub struct Scenario {
    pub source: SourceSpec,
    pub cfg: ArchCfg,
    pub seeds: Vec<(Related, ReadScript)>,
    /// existing content of the output path (None = absent)
    pub prior: Option<Related>,
    /// --seed-output
    pub inplace: bool,
    pub block_dev: bool,
    pub clone_buffers: usize,
}

pub struct Expect {
    pub source: Arc<Vec<u8>>,
    pub prior: Option<Vec<u8>>,
    pub seeds: Vec<Arc<Vec<u8>>>,
    pub src_chunks: Vec<MChunk>,
    pub prior_chunks: Vec<MChunk>,
    pub seed_chunks: Vec<Vec<MChunk>>,
    pub collision: bool,
    /// truncated keys of source chunks
    pub src_keys: BTreeSet<Vec<u8>>,
    /// keys found in the prior output (if used as seed)
    pub in_prior: BTreeSet<Vec<u8>>,
    /// keys found in any seed
    pub in_seeds: BTreeSet<Vec<u8>>,
    /// keys that must be fetched from the archive
    pub missing: BTreeSet<Vec<u8>>,
    /// source offsets whose chunk is already in place in the prior output
    pub in_place_offsets: BTreeSet<usize>,
    pub hash_len: usize,
}

pub fn expectations(s: &Scenario) -> Expect {
    let source = Arc::new(expand(&s.source));
    let prior = s.prior.as_ref().map(|r| related_bytes(&source, r));
    let seeds: Vec<Arc<Vec<u8>>> = s.seeds.iter().map(|(r, _)| Arc::new(related_bytes(&source, r))).collect();
    let c = &s.cfg.chunker;
    let hl = s.cfg.hash_len;
    let src_chunks = model_chunks(c, &source);
    let prior_chunks = if s.inplace { prior.as_ref().map(|p| model_chunks(c, p)).unwrap_or_default() } else { vec![] };
    let seed_chunks: Vec<Vec<MChunk>> = seeds.iter().map(|d| model_chunks(c, d)).collect();
    let mut streams: Vec<&[MChunk]> = vec![&src_chunks, &prior_chunks];
    for sc in &seed_chunks {
        streams.push(sc);
    }
    let collision = has_truncated_collision(hl, &streams);
    let src_keys: BTreeSet<Vec<u8>> = src_chunks.iter().map(|m| m.key(hl)).collect();
    let prior_keys: HashSet<Vec<u8>> = prior_chunks.iter().map(|m| m.key(hl)).collect();
    let in_prior: BTreeSet<Vec<u8>> = src_keys.iter().filter(|k| prior_keys.contains(*k)).cloned().collect();
    let mut seed_keys: HashSet<Vec<u8>> = HashSet::new();
    for sc in &seed_chunks {
        for m in sc {
            seed_keys.insert(m.key(hl));
        }
    }
    let in_seeds: BTreeSet<Vec<u8>> = src_keys.iter().filter(|k| seed_keys.contains(*k)).cloned().collect();
    let missing: BTreeSet<Vec<u8>> = src_keys.iter().filter(|k| !in_prior.contains(*k) && !in_seeds.contains(*k)).cloned().collect();
    let prior_at: HashSet<(usize, Vec<u8>)> = prior_chunks.iter().map(|m| (m.off, m.key(hl))).collect();
    let in_place_offsets: BTreeSet<usize> = src_chunks.iter().filter(|m| prior_at.contains(&(m.off, m.key(hl)))).map(|m| m.off).collect();
    Expect { source, prior, seeds, src_chunks, prior_chunks, seed_chunks, collision, src_keys, in_prior, in_seeds, missing, in_place_offsets, hash_len: hl }
}

pub struct L1Outcome {
    pub archive: Arc<Vec<u8>>,
    pub header: fmt::Header,
    pub report: CloneReport,
    pub reads: Vec<ReadRec>,
}

/// Build the archive with the library writer and clone it with the L1 mirror.
pub fn evaluate_l1(s: &Scenario, e: &Expect, faults: Vec<crate::iod::WriteFault>) -> Result<L1Outcome, String> {
    let archive = crate::util::block_on(crate::l1::compress_lib(e.source.clone(), &s.cfg, ReadScript::full(), &BTreeMap::new()))?;
    let header = fmt::decode_header(&archive).map_err(|x| format!("harness: fresh archive not decodable: {}", x))?;
    let archive = Arc::new(archive);
    let (reader, log) = crate::l1::local_reader(archive.clone(), ReadScript::full());
    let opts = CloneOpts {
        seeds: e.seeds.iter().cloned().zip(s.seeds.iter().map(|(_, r)| r.clone())).collect(),
        prior: e.prior.clone(),
        inplace: s.inplace,
        block_dev: s.block_dev,
        buffers: s.clone_buffers,
        faults,
        ..Default::default()
    };
    let report = crate::util::block_on(crate::l1::clone_mirror(reader, &opts));
    let reads = log.lock().unwrap().clone();
    Ok(L1Outcome { archive, header, report, reads })
}

pub fn clone_l1_of(archive: &Arc<Vec<u8>>, s: &Scenario, e: &Expect, prior: Option<Vec<u8>>, faults: Vec<crate::iod::WriteFault>) -> (CloneReport, Vec<ReadRec>) {
    let (reader, log) = crate::l1::local_reader(archive.clone(), ReadScript::full());
    let opts = CloneOpts {
        seeds: e.seeds.iter().cloned().zip(s.seeds.iter().map(|(_, r)| r.clone())).collect(),
        prior,
        inplace: s.inplace,
        block_dev: s.block_dev,
        buffers: s.clone_buffers,
        faults,
        ..Default::default()
    };
    let report = crate::util::block_on(crate::l1::clone_mirror(reader, &opts));
    let reads = log.lock().unwrap().clone();
    (report, reads)
}

/// Final content the property promises: regular file = exactly the source; block device = source followed by
/// whatever the device held beyond the source length.
pub fn check_final_output(s: &Scenario, e: &Expect, out: &[u8]) -> Result<(), String> {
    if s.block_dev {
        if out.len() < e.source.len() || out[..e.source.len()] != e.source[..] {
            return Err(crate::util::describe_diff("output differs from source", &out[..e.source.len().min(out.len())], &e.source));
        }
        Ok(())
    } else if out != &e.source[..] {
        Err(crate::util::describe_diff("output differs from source", out, &e.source))
    } else {
        Ok(())
    }
}

/// C13's oracle over a write log.
pub fn check_write_log(e: &Expect, writes: &[WriteRec]) -> Result<(), String> {
    let by_off: HashMap<usize, &MChunk> = e.src_chunks.iter().map(|m| (m.off, m)).collect();
    let mut seen: HashSet<u64> = HashSet::new();
    for w in writes {
        if w.data.is_empty() {
            continue;
        }
        let Some(m) = by_off.get(&(w.off as usize)) else {
            return Err(format!("write log: write of {} bytes at {} which is not the offset of any source chunk", w.data.len(), w.off));
        };
        if w.data.len() != m.len || w.data[..] != e.source[m.off..m.off + m.len] {
            return Err(format!("write log: write at {} ({} bytes) is not exactly the source chunk at that offset ({} bytes)", w.off, w.data.len(), m.len));
        }
        if w.off as usize + w.data.len() > e.source.len() {
            return Err(format!("write log: write at {} reaches beyond the source length {}", w.off, e.source.len()));
        }
        if !seen.insert(w.off) {
            return Err(format!("write log: location {} written more than once", w.off));
        }
        if e.in_place_offsets.contains(&(w.off as usize)) {
            return Err(format!("write log: location {} already held the right chunk in the prior output but was written", w.off));
        }
    }
    Ok(())
}

/// C06's oracle over the recorded archive reads. `header_len` and descriptors come from R2.
pub fn check_read_log(e: &Expect, h: &fmt::Header, reads: &[ReadRec]) -> Result<(), String> {
    let hl = e.hash_len;
    // expected stored ranges, in dictionary order
    let want: Vec<(u64, usize)> = h
        .dictionary
        .chunk_descriptors
        .iter()
        .filter(|d| e.missing.contains(&d.checksum[..hl.min(d.checksum.len())].to_vec()))
        .map(|d| (h.chunk_data_offset + d.archive_offset, d.archive_size as usize))
        .collect();
    let mut got: Vec<(u64, usize)> = vec![];
    for r in reads {
        match r {
            ReadRec::At { offset, size } => {
                if offset + *size as u64 > h.header_len as u64 {
                    return Err(format!("read log: read_at({}, {}) reaches beyond the header region [0,{})", offset, size, h.header_len));
                }
            }
            ReadRec::Chunks(v) => got.extend(v.iter().cloned()),
        }
    }
    let mut g = got.clone();
    g.sort();
    let mut w = want.clone();
    w.sort();
    if g != w {
        let extra: Vec<_> = g.iter().filter(|x| !w.contains(x)).take(3).collect();
        let lacking: Vec<_> = w.iter().filter(|x| !g.contains(x)).take(3).collect();
        return Err(format!(
            "read log: requested {} stored ranges, expected exactly the {} ranges of the chunks missing from seeds/prior output (unexpected e.g. {:?}, not requested e.g. {:?})",
            g.len(),
            w.len(),
            extra,
            lacking
        ));
    }
    Ok(())
}

pub fn scenario_strategy(min_hash: usize, with_prior: bool, with_seeds: bool) -> impl Strategy<Value = Scenario> {
    let prior = if with_prior {
        prop_oneof![1 => Just(None), 6 => related_strategy(600).prop_map(Some)].boxed()
    } else {
        Just(None).boxed()
    };
    let seeds = if with_seeds {
        prop::collection::vec((related_strategy(600), prop_oneof![3 => Just(ReadScript::full()), 1 => read_script_strategy()]), 0..4).boxed()
    } else {
        Just(vec![]).boxed()
    };
    (
        prop_oneof![
            3 => source_strategy(6, 1500),
            1 => zero_heavy_strategy(6, 300),
            // rich: enough content for many chunks, so that edits leave some chunks in place, move others and lose some
            4 => prop::collection::vec(
                prop_oneof![
                    4 => (100u32..800, any::<u32>()).prop_map(|(n, seed)| Seg::Random { n, seed }),
                    1 => (100u32..800, any::<u32>()).prop_map(|(n, seed)| Seg::Text { n, seed }),
                    1 => (any::<u16>(), 50u32..400).prop_map(|(at, len)| Seg::CopyOf { at, len }),
                ],
                2..6
            ),
        ],
        arch_cfg_strategy(min_hash, true),
        seeds,
        prior,
        prop_oneof![3 => Just(true), 1 => Just(false)],
        prop_oneof![4 => Just(false), 1 => Just(true)],
        buffers_strategy(),
    )
        .prop_map(|(source, cfg, seeds, prior, inplace, block_dev, clone_buffers)| {
            let inplace = inplace && prior.is_some();
            let block_dev = block_dev && prior.is_some();
            Scenario { source, cfg, seeds, prior, inplace, block_dev, clone_buffers }
        })
}

/// A block device must be at least as large as the source: pad the prior content (sound domain for block_dev).
pub fn normalise_block_dev(s: &Scenario, e: &mut Expect) {
    if s.block_dev {
        if let Some(p) = &mut e.prior {
            if p.len() < e.source.len() {
                let mut r = SplitMix(p.len() as u64);
                let n = e.source.len() - p.len();
                r.fill(p, n);
                // prior chunks must be recomputed
                e.prior_chunks = if s.inplace { model_chunks(&s.cfg.chunker, p) } else { vec![] };
                let hl = e.hash_len;
                let prior_keys: HashSet<Vec<u8>> = e.prior_chunks.iter().map(|m| m.key(hl)).collect();
                e.in_prior = e.src_keys.iter().filter(|k| prior_keys.contains(*k)).cloned().collect();
                e.missing = e.src_keys.iter().filter(|k| !e.in_prior.contains(*k) && !e.in_seeds.contains(*k)).cloned().collect();
                let prior_at: HashSet<(usize, Vec<u8>)> = e.prior_chunks.iter().map(|m| (m.off, m.key(hl))).collect();
                e.in_place_offsets = e.src_chunks.iter().filter(|m| prior_at.contains(&(m.off, m.key(hl)))).map(|m| m.off).collect();
                let mut streams: Vec<&[MChunk]> = vec![&e.src_chunks, &e.prior_chunks];
                for sc in &e.seed_chunks {
                    streams.push(sc);
                }
                e.collision = has_truncated_collision(hl, &streams);
            }
        }
    }
}

pub fn classify_scenario(rec: &mut CaseRec, s: &Scenario, e: &Expect) {
    rec.class_if(s.inplace, "seed_output");
    rec.class_if(s.block_dev, "block_device");
    rec.class_if(!s.seeds.is_empty(), "seed_files");
    rec.class_if(s.seeds.len() >= 2, "multiple_seeds");
    rec.class_if(!e.in_prior.is_empty(), "chunk_found_in_prior_output");
    rec.class_if(!e.in_seeds.is_empty(), "chunk_found_in_seed");
    rec.class_if(!e.in_place_offsets.is_empty(), "chunk_already_in_place");
    rec.class_if(e.in_prior.len() > e.in_place_offsets.len(), "chunk_moved_in_place");
    rec.class_if(!e.missing.is_empty(), "chunk_fetched");
    rec.class_if(s.cfg.hash_len < 64, "truncated_hash");
    if let Some(p) = &e.prior {
        rec.class_if(p.len() > e.source.len(), "prior_longer");
        rec.class_if(p.len() < e.source.len(), "prior_shorter");
        rec.class_if(p.len() == e.source.len(), "prior_same_length");
    }
    // a seed chunk equal in size but not in content to a needed chunk
    let src_sizes: HashSet<usize> = e.src_chunks.iter().map(|m| m.len).collect();
    let src_full: HashSet<[u8; 64]> = e.src_chunks.iter().map(|m| m.full).collect();
    rec.class_if(e.seed_chunks.iter().flatten().any(|m| src_sizes.contains(&m.len) && !src_full.contains(&m.full)), "seed_chunk_same_size_other_content");
    // the same needed chunk offered by two seeds
    if e.seed_chunks.len() >= 2 {
        let mut count: HashMap<Vec<u8>, usize> = HashMap::new();
        for sc in &e.seed_chunks {
            let ks: HashSet<Vec<u8>> = sc.iter().map(|m| m.key(e.hash_len)).filter(|k| e.src_keys.contains(k)).collect();
            for k in ks {
                *count.entry(k).or_insert(0) += 1;
            }
        }
        rec.class_if(count.values().any(|c| *c >= 2), "chunk_offered_by_two_seeds");
    }
}
use crate::engine::CaseRec;
