//! Shared scenario pieces: R3 (reference clone model), archive production through both writers,
//! corner-chunk mining, collision guard.
#![allow(dead_code)]

use crate::gen::*;
use crate::l2;
use crate::refs::chunker::ref_chunks;
use crate::refs::format as fmt;
use serde::{Deserialize, Serialize};
use std::collections::{BTreeMap, HashMap};
use std::path::Path;
use std::sync::Arc;

pub fn full_hash(data: &[u8]) -> [u8; 64] {
    let v = crate::util::blake2b512(data);
    v.try_into().unwrap()
}

#[derive(Clone, Debug)]
pub struct MChunk {
    pub off: usize,
    pub len: usize,
    pub full: [u8; 64],
}
impl MChunk {
    pub fn key(&self, hash_len: usize) -> Vec<u8> {
        self.full[..hash_len.min(64)].to_vec()
    }
}

/// R1 chunks of `data`, hashed with the harness's own Blake2b-512.
pub fn model_chunks(cfg: &ChunkerCfg, data: &[u8]) -> Vec<MChunk> {
    ref_chunks(cfg, data, data.len() <= 1024)
        .into_iter()
        .map(|c| MChunk { off: c.offset, len: c.len, full: full_hash(&data[c.offset..c.offset + c.len]) })
        .collect()
}

/// Exact collision guard: two different chunk contents sharing a truncated hash (possible by design at
/// short hash lengths). `streams` = all chunk lists that take part in a scenario.
pub fn has_truncated_collision(hash_len: usize, streams: &[&[MChunk]]) -> bool {
    let mut seen: HashMap<Vec<u8>, [u8; 64]> = HashMap::new();
    for s in streams {
        for c in s.iter() {
            let k = c.key(hash_len);
            match seen.get(&k) {
                Some(f) if *f != c.full => return true,
                Some(_) => {}
                None => {
                    seen.insert(k, c.full);
                }
            }
        }
    }
    false
}

#[derive(Clone, Copy, Debug, Serialize, Deserialize, PartialEq, Eq)]
pub enum Writer {
    Lib,
    Cli,
    CliStdin,
}

/// Produce an archive with the CLI writer in `dir`. Returns archive bytes.
pub fn compress_cli(dir: &Path, tag: &str, source: &[u8], cfg: &ArchCfg, stdin: bool, metadata: &[MetaArg], hook: Option<&l2::Hook>) -> Result<(Vec<u8>, l2::RunOut), String> {
    let src_name = format!("{}.src", tag);
    let arch_name = format!("{}.cba", tag);
    let _ = std::fs::remove_file(dir.join(&arch_name));
    if !stdin {
        l2::write_file(&dir.join(&src_name), source);
    }
    let mut args = l2::compress_args(cfg, if stdin { None } else { Some(&src_name) }, &arch_name, false);
    // metadata options go before the positional output
    let out = args.pop().unwrap();
    for (i, m) in metadata.iter().enumerate() {
        match m {
            MetaArg::Value(k, v) => {
                args.push("--metadata-value".into());
                args.push(k.clone());
                args.push(v.clone());
            }
            MetaArg::File(k, bytes) => {
                let f = format!("{}.meta{}", tag, i);
                l2::write_file(&dir.join(&f), bytes);
                args.push("--metadata-file".into());
                args.push(k.clone());
                args.push(f);
            }
        }
    }
    args.push(out);
    let mut spec = l2::RunSpec { args, stdin: if stdin { Some(source.to_vec()) } else { None }, ..Default::default() };
    let log = dir.join(format!("{}.hooklog", tag));
    if let Some(h) = hook {
        spec.shim = true;
        spec.env = h.env(&log);
    }
    let r = l2::run_bita(dir, &spec);
    if r.timed_out {
        return Err(format!("[timeout] bita compress did not finish: {}", r.describe()));
    }
    if !r.ok() {
        return Err(format!("bita compress failed: {}", r.describe()));
    }
    let bytes = std::fs::read(dir.join(&arch_name)).map_err(|e| format!("bita compress exit 0 but archive unreadable: {}", e))?;
    Ok((bytes, r))
}

#[derive(Clone, Debug, Serialize, Deserialize, PartialEq)]
pub enum MetaArg {
    Value(String, String),
    File(String, Vec<u8>),
}
pub fn metadata_map(m: &[MetaArg]) -> BTreeMap<String, Vec<u8>> {
    // CLI semantics (src/compress_cmd.rs): strings first, then files; later insert wins
    let mut map = BTreeMap::new();
    for a in m {
        if let MetaArg::Value(k, v) = a {
            map.insert(k.clone(), v.as_bytes().to_vec());
        }
    }
    for a in m {
        if let MetaArg::File(k, v) = a {
            map.insert(k.clone(), v.clone());
        }
    }
    map
}

/// Clone with the CLI. `extra` = extra args before the positionals. Returns (RunOut, output bytes if the file exists).
pub fn clone_cli(dir: &Path, archive: &str, output: &str, extra: &[String], stdin: Option<Vec<u8>>, hook: Option<(&l2::Hook, &Path)>, hook_build: bool, env: &[(String, String)]) -> (l2::RunOut, Option<Vec<u8>>) {
    let mut args: Vec<String> = vec!["clone".into()];
    args.extend(extra.iter().cloned());
    args.push(archive.into());
    args.push(output.into());
    let mut spec = l2::RunSpec { args, stdin, hook_build, ..Default::default() };
    if let Some((h, log)) = hook {
        spec.shim = true;
        spec.env = h.env(log);
    }
    spec.env.extend(env.iter().cloned());
    let r = l2::run_bita(dir, &spec);
    let out = std::fs::read(dir.join(output)).ok();
    (r, out)
}

/// Short byte strings whose compressed size under (codec, level) is exactly their length — the
/// corner of the "store raw iff compressed is not smaller" rule. Mined with bitar's public
/// Chunk::compress (classification only; the oracle never depends on it).
pub fn mine_corners(comp: Comp, max_len: usize) -> Vec<Vec<u8>> {
    let mut out = vec![];
    let Some(c) = comp.to_bitar() else { return out };
    let mut r = SplitMix(0xC0C0);
    for len in 1..=max_len {
        let mut cands: Vec<Vec<u8>> = vec![vec![0u8; len], vec![0x41u8; len]];
        let mut t = Vec::new();
        SplitMix(len as u64).fill(&mut t, len);
        cands.push(t.clone());
        // half constant, half random
        let mut h = vec![0u8; len / 2];
        r.fill(&mut h, len - len / 2);
        cands.push(h);
        let mut txt = expand(&vec![Seg::Text { n: len as u32, seed: len as u32 }]);
        txt.truncate(len);
        cands.push(txt);
        for cand in cands {
            if cand.len() != len {
                continue;
            }
            if let Ok(cc) = bitar::Chunk::from(cand.clone()).compress(Some(c)) {
                if cc.len() == len {
                    out.push(cand);
                }
            }
        }
    }
    out
}

pub fn arc(v: Vec<u8>) -> Arc<Vec<u8>> {
    Arc::new(v)
}

/// Decode with R2 and return (header, descriptors with absolute ranges).
pub fn decode(archive: &[u8]) -> Result<fmt::Header, String> {
    fmt::decode_header(archive)
}
