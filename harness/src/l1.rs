//! Level L1: drive the public bitar API the way src/clone_cmd.rs, bitar/examples/*-cloner.rs and
//! bitar::api::compress do, against the in-memory doubles.
#![allow(dead_code)]

use crate::gen::{ArchCfg, ReadScript};
use crate::iod::{FragReader, MemOutput, ReadLog, RecordingReader, WriteFault};
use bitar::archive_reader::{ArchiveReader, IoReader};
use bitar::{Archive, ChunkIndex, CloneOutput, VerifiedChunk};
use futures_util::StreamExt;
use serde::{Deserialize, Serialize};
use std::collections::BTreeMap;
use std::sync::Arc;
use tokio::io::{AsyncRead, AsyncSeek, AsyncWrite, AsyncWriteExt};
use tokio::task::spawn_blocking;

#[derive(Clone, Copy, Debug, Serialize, Deserialize, PartialEq)]
pub struct RtShape {
    pub multi: bool,
    pub workers: usize,
    pub blocking: usize,
}
impl RtShape {
    pub fn current() -> Self {
        RtShape { multi: false, workers: 1, blocking: 4 }
    }
    pub fn build(&self) -> tokio::runtime::Runtime {
        let mut b = if self.multi {
            let mut b = tokio::runtime::Builder::new_multi_thread();
            b.worker_threads(self.workers.max(1));
            b
        } else {
            tokio::runtime::Builder::new_current_thread()
        };
        b.max_blocking_threads(self.blocking.max(1)).enable_all().build().unwrap()
    }
}

pub fn rt_shape_strategy() -> impl proptest::strategy::Strategy<Value = RtShape> {
    use proptest::prelude::*;
    prop_oneof![
        2 => (1usize..=8).prop_map(|blocking| RtShape { multi: false, workers: 1, blocking }),
        3 => (1usize..=4, 1usize..=8).prop_map(|(workers, blocking)| RtShape { multi: true, workers, blocking }),
    ]
}

/// Library writer: bitar::api::compress::create_archive.
pub async fn compress_lib(
    source: Arc<Vec<u8>>,
    cfg: &ArchCfg,
    rs: ReadScript,
    metadata: &BTreeMap<String, Vec<u8>>,
) -> Result<Vec<u8>, String> {
    use bitar::api::compress::{create_archive, CreateArchiveOptions};
    let opts = CreateArchiveOptions {
        chunker_config: cfg.chunker.to_bitar(),
        num_chunk_buffers: cfg.buffers,
        chunk_hash_length: cfg.hash_len,
        temporary_file_override: None,
        compression: cfg.comp.to_bitar(),
        metadata: metadata.clone(),
    };
    let input = FragReader::new(source, rs);
    // The archive sink is one more dimension no case structure carries: a Vec accepts every buffer whole, a file or a
    // socket need not. Derived from the case (engine::case_salt), so a replay makes the same choice: half of the cases
    // write into a sink that takes at most 1 / 7 / 100 / 4096 bytes per call, some of them with Pending in between. A quarter
    // of the cases hand the writer a BUFFERING sink by value (tokio's BufWriter, 8 KiB or 1 MiB): what the writer has not
    // flushed when it returns never reaches the archive, because nobody else can flush a sink that was moved into the call.
    let salt = crate::engine::case_salt();
    let (max_write, pending_every, buffered) = match salt % 8 {
        0 => (1usize, 0usize, 0usize),
        1 => (7, 0, 0),
        2 => (100, 3, 0),
        3 => (4096, 0, 0),
        4 => (0, 0, 8192),
        5 => (100, 0, 1 << 20),
        _ => (0, 0, 0),
    };
    let mut out = crate::iod::ShortWriter::new(max_write, pending_every);
    let r = if buffered > 0 {
        create_archive(input, tokio::io::BufWriter::with_capacity(buffered, &mut out), &opts).await
    } else {
        create_archive(input, &mut out, &opts).await
    };
    r.map_err(|e| format!("create_archive: {}", e))?;
    Ok(out.data)
}

#[derive(Clone, Debug, Default)]
pub struct CloneOpts {
    /// seed streams in the order they are consumed
    pub seeds: Vec<(Arc<Vec<u8>>, ReadScript)>,
    /// existing content of the output (None = output does not exist yet)
    pub prior: Option<Vec<u8>>,
    /// use the output as its own seed (--seed-output)
    pub inplace: bool,
    /// treat the output as a block device (no resize; size check)
    pub block_dev: bool,
    pub buffers: usize,
    pub verify_header: Option<Vec<u8>>,
    pub verify_output: bool,
    pub faults: Vec<WriteFault>,
    pub out_cap: Option<u64>,
    /// the output accepts at most this many bytes per write call (0 = unlimited)
    pub max_write: usize,
}

pub struct CloneReport {
    pub result: Result<(), String>,
    pub output: Option<MemOutput>,
    pub stage: &'static str,
    pub used_in_place: u64,
    pub used_from_seeds: u64,
    pub fetched_stored_bytes: u64,
    pub chunks_left_after_reorder: usize,
    pub source_size: u64,
    /// number of poll_write calls on the output when the reorder stage ended
    pub writes_after_reorder: usize,
}

async fn index_from_readable<R: AsyncRead + Unpin + Send>(
    hash_length: usize,
    config: &bitar::chunker::Config,
    buffers: usize,
    readable: &mut R,
) -> Result<ChunkIndex, String> {
    let mut chunk_stream = config
        .new_chunker(readable)
        .map(|r| spawn_blocking(|| r.map(|(offset, chunk)| (offset, chunk.verify()))))
        .buffered(buffers.max(1));
    let mut index = ChunkIndex::new_empty(hash_length);
    while let Some(r) = chunk_stream.next().await {
        let (chunk_offset, verified) = r.map_err(|e| format!("join: {}", e))?.map_err(|e| format!("scan output: {}", e))?;
        let (hash, chunk) = verified.into_parts();
        index.add_chunk(hash, chunk.len(), &[chunk_offset]);
    }
    Ok(index)
}

async fn feed_from_readable<I, C>(buffers: usize, config: &bitar::chunker::Config, input: I, output: &mut CloneOutput<C>) -> Result<u64, String>
where
    I: AsyncRead + Unpin + Send,
    C: AsyncWrite + AsyncSeek + Unpin + Send,
{
    let mut chunk_stream = config
        .new_chunker(input)
        .map(|r| spawn_blocking(|| r.map(|(_, chunk)| chunk.verify())))
        .buffered(buffers.max(1));
    let mut n = 0u64;
    while let Some(r) = chunk_stream.next().await {
        let verified: VerifiedChunk = r.map_err(|e| format!("join: {}", e))?.map_err(|e| format!("read seed: {}", e))?;
        n += output.feed(&verified).await.map_err(|e| format!("feed from seed: {}", e))? as u64;
    }
    Ok(n)
}

async fn feed_from_archive<R, C>(buffers: usize, archive: &mut Archive<R>, output: &mut CloneOutput<C>) -> Result<u64, String>
where
    R: ArchiveReader,
    R::Error: std::error::Error + Sync + Send + 'static,
    C: AsyncWrite + AsyncSeek + Unpin + Send,
{
    let mut total_fetched = 0u64;
    let mut chunk_stream = archive
        .chunk_stream(output.chunks())
        .map(|r| {
            if let Ok(c) = &r {
                total_fetched += c.len() as u64;
            }
            spawn_blocking(move || -> Result<VerifiedChunk, String> {
                let compressed = r.map_err(|e| format!("read archive: {}", e))?;
                let verified = compressed
                    .decompress()
                    .map_err(|e| format!("decompress chunk: {}", e))?
                    .verify()
                    .map_err(|e| format!("verify chunk: {}", e))?;
                Ok(verified)
            })
        })
        .buffered(buffers.max(1));
    while let Some(r) = chunk_stream.next().await {
        let verified = r.map_err(|e| format!("join: {}", e))??;
        output.feed(&verified).await.map_err(|e| format!("feed from archive: {}", e))?;
    }
    drop(chunk_stream);
    Ok(total_fetched)
}

/// Mirror of src/clone_cmd.rs::clone_archive on a MemOutput.
pub async fn clone_mirror<R>(reader: R, opts: &CloneOpts) -> CloneReport
where
    R: ArchiveReader,
    R::Error: std::error::Error + Sync + Send + 'static,
{
    let mut rep = CloneReport {
        result: Ok(()),
        output: None,
        stage: "open",
        used_in_place: 0,
        used_from_seeds: 0,
        fetched_stored_bytes: 0,
        chunks_left_after_reorder: 0,
        source_size: 0,
        writes_after_reorder: 0,
    };
    macro_rules! bail {
        ($rep:expr, $e:expr) => {{
            $rep.result = Err($e);
            return $rep;
        }};
    }
    let mut archive = match Archive::try_init(reader).await {
        Ok(a) => a,
        Err(e) => bail!(rep, format!("try_init: {} ({:?})", e, std::error::Error::source(&e).map(|s| s.to_string()))),
    };
    rep.source_size = archive.total_source_size();
    let clone_index = archive.build_source_index();
    if let Some(exp) = &opts.verify_header {
        let exp = bitar::HashSum::from(&exp[..]);
        if exp != *archive.header_checksum() {
            bail!(rep, "Header checksum mismatch".to_string());
        }
    }
    rep.stage = "output";
    // open output
    let initial = match (&opts.prior, opts.inplace) {
        (Some(p), _) => p.clone(),
        (None, _) => vec![],
    };
    let mut out = MemOutput::new(initial).with_faults(opts.faults.clone());
    if let Some(c) = opts.out_cap {
        out.cap = c;
    }
    out.max_write = opts.max_write;
    // (not in C05: its crash points are numbered by the writes of the uninterrupted run, which must be the same run)
    if opts.max_write == 0 && opts.faults.is_empty() && crate::engine::current_prop() != "C05" {
        // an output need not take a whole buffer per write call (a file takes at most 2 MiB, a socket less): for a quarter
        // of the fault-free cases the in-memory output accepts only 3 or 64 bytes per call — a function of the case
        // (engine::case_salt), so a replay does the same. The write log coalesces contiguous calls after one seek.
        out.max_write = match (crate::engine::case_salt() >> 16) % 8 {
            0 => 3,
            1 => 64,
            _ => 0,
        };
    }
    if opts.block_dev {
        let size = out.data.len() as u64;
        if size < archive.total_source_size() {
            rep.output = Some(out);
            bail!(rep, "Size of output device is less than archive target file".to_string());
        }
    }
    let output_index = if opts.inplace {
        rep.stage = "scan";
        match index_from_readable(archive.chunk_hash_length(), archive.chunker_config(), opts.buffers, &mut out).await {
            Ok(i) => Some(i),
            Err(e) => {
                rep.output = Some(out);
                bail!(rep, e)
            }
        }
    } else {
        None
    };
    let wcounter = out.counter.clone();
    let mut output = CloneOutput::new(out, clone_index);
    if let Some(oi) = output_index {
        rep.stage = "reorder";
        match output.reorder_in_place(oi).await {
            Ok(n) => rep.used_in_place = n,
            Err(e) => {
                rep.output = Some(output.into_inner());
                bail!(rep, format!("Failed to clone in place: {}", e));
            }
        }
    }
    rep.chunks_left_after_reorder = output.len();
    rep.writes_after_reorder = wcounter.load(std::sync::atomic::Ordering::Relaxed);
    rep.stage = "seeds";
    for (seed, rs) in &opts.seeds {
        let input = FragReader::new(seed.clone(), rs.clone());
        match feed_from_readable(opts.buffers, archive.chunker_config(), input, &mut output).await {
            Ok(n) => rep.used_from_seeds += n,
            Err(e) => {
                rep.output = Some(output.into_inner());
                bail!(rep, e)
            }
        }
    }
    rep.stage = "fetch";
    match feed_from_archive(opts.buffers, &mut archive, &mut output).await {
        Ok(n) => rep.fetched_stored_bytes = n,
        Err(e) => {
            rep.output = Some(output.into_inner());
            bail!(rep, e)
        }
    }
    rep.stage = "finish";
    let mut out = output.into_inner();
    if let Err(e) = out.flush().await {
        rep.output = Some(out);
        bail!(rep, format!("flush: {}", e));
    }
    if !opts.block_dev {
        out.set_len(archive.total_source_size());
    }
    if opts.verify_output {
        let sum = crate::refs::format::blake2b512(&out.data);
        if bitar::HashSum::from(&sum[..]) != *archive.source_checksum() {
            rep.output = Some(out);
            bail!(rep, "Checksum mismatch".to_string());
        }
    }
    rep.output = Some(out);
    rep
}

/// Local archive held in memory, recorded.
pub fn local_reader(archive: Arc<Vec<u8>>, rs: ReadScript) -> (RecordingReader<IoReader<FragReader>>, ReadLog) {
    RecordingReader::new(IoReader::new(FragReader::new(archive, rs)))
}

/// Chunk `data` with bitar's chunker (the code under test), returning (offset, bytes-len) and full hash.
pub async fn bitar_chunks(cfg: &bitar::chunker::Config, data: Arc<Vec<u8>>, rs: ReadScript) -> Result<Vec<(u64, Vec<u8>)>, String> {
    let r = FragReader::new(data, rs);
    let mut s = cfg.new_chunker(r);
    let mut out = vec![];
    while let Some(item) = s.next().await {
        let (off, chunk) = item.map_err(|e| format!("chunker: {}", e))?;
        out.push((off, chunk.data().to_vec()));
    }
    Ok(out)
}


// ---------------------------------------------------------------------------------------
// the library writer in a process of its own

#[derive(serde::Serialize, serde::Deserialize)]
struct LibCompressJob {
    source: crate::gen::SourceSpec,
    cfg: ArchCfg,
    reads: ReadScript,
    metadata: BTreeMap<String, Vec<u8>>,
}

/// `bverif --lib-compress <job.json> <out>`: exit 0 and the archive in <out>, or exit 1 and the error on stderr.
pub fn lib_compress_main(job: &std::path::Path, out: &std::path::Path) -> i32 {
    let run = || -> Result<(), String> {
        let j: LibCompressJob = serde_json::from_slice(&std::fs::read(job).map_err(|e| e.to_string())?).map_err(|e| e.to_string())?;
        let source = Arc::new(crate::gen::expand(&j.source));
        let a = crate::util::block_on(compress_lib(source, &j.cfg, j.reads, &j.metadata))?;
        std::fs::write(out, a).map_err(|e| e.to_string())
    };
    match run() {
        Ok(()) => 0,
        Err(e) => {
            eprintln!("{}", e);
            1
        }
    }
}

/// The same library writer call as `compress_lib`, made by a freshly started process: whatever the long-lived worker
/// process has compressed before (other codecs, other levels) cannot reach it. Same input and options, same bytes.
pub fn compress_lib_fresh_process(dir: &std::path::Path, source: &crate::gen::SourceSpec, cfg: &ArchCfg, reads: &ReadScript, metadata: &BTreeMap<String, Vec<u8>>) -> Result<Vec<u8>, String> {
    let _ = std::fs::create_dir_all(dir);
    let job = dir.join("libjob.json");
    let out = dir.join("libjob.out");
    let _ = std::fs::remove_file(&out);
    let j = LibCompressJob { source: source.clone(), cfg: *cfg, reads: reads.clone(), metadata: metadata.clone() };
    std::fs::write(&job, serde_json::to_vec(&j).map_err(|e| e.to_string())?).map_err(|e| format!("harness: {}", e))?;
    let exe = std::env::current_exe().map_err(|e| format!("harness: {}", e))?;
    let o = std::process::Command::new(exe).arg("--lib-compress").arg(&job).arg(&out).env("RUST_BACKTRACE", "0").output().map_err(|e| format!("harness: spawn: {}", e))?;
    if !o.status.success() {
        return Err(format!("library writer in a fresh process failed: {}", String::from_utf8_lossy(&o.stderr).trim()));
    }
    let a = std::fs::read(&out).map_err(|e| format!("harness: {}", e))?;
    let _ = std::fs::remove_file(&job);
    let _ = std::fs::remove_file(&out);
    Ok(a)
}
