//! R2 — independent codec for the bita archive format, written from bitar/src/header.rs' layout
//! table and bitar/proto/chunk_dictionary.proto. Hand-written protobuf varint / length-delimited
//! reader and writer; shares no code with bitar or prost.
#![allow(dead_code)]

use blake2::{Blake2b512, Digest};
use serde::{Deserialize, Serialize};
use std::collections::BTreeMap;

pub const MAGIC: &[u8; 6] = b"BITA1\0";
pub const LEGACY_MAGIC: &[u8; 6] = b"\0BITA1";

// ------------------------------------------------------------------ protobuf wire primitives

pub fn put_varint(out: &mut Vec<u8>, mut v: u64) {
    loop {
        let b = (v & 0x7f) as u8;
        v >>= 7;
        if v == 0 {
            out.push(b);
            return;
        }
        out.push(b | 0x80);
    }
}
pub fn put_tag(out: &mut Vec<u8>, field: u32, wire: u8) {
    put_varint(out, ((field as u64) << 3) | wire as u64);
}
pub fn put_varint_field(out: &mut Vec<u8>, field: u32, v: u64) {
    put_tag(out, field, 0);
    put_varint(out, v);
}
pub fn put_bytes_field(out: &mut Vec<u8>, field: u32, b: &[u8]) {
    put_tag(out, field, 2);
    put_varint(out, b.len() as u64);
    out.extend_from_slice(b);
}

struct Rd<'a> {
    b: &'a [u8],
    p: usize,
}
impl<'a> Rd<'a> {
    fn varint(&mut self) -> Result<u64, String> {
        let mut v = 0u64;
        let mut shift = 0;
        loop {
            let byte = *self.b.get(self.p).ok_or("truncated varint")?;
            self.p += 1;
            if shift >= 64 {
                return Err("varint too long".into());
            }
            v |= ((byte & 0x7f) as u64) << shift;
            if byte & 0x80 == 0 {
                return Ok(v);
            }
            shift += 7;
        }
    }
    fn bytes(&mut self) -> Result<&'a [u8], String> {
        let n = self.varint()? as usize;
        if self.p + n > self.b.len() {
            return Err("truncated length-delimited field".into());
        }
        let s = &self.b[self.p..self.p + n];
        self.p += n;
        Ok(s)
    }
    fn done(&self) -> bool {
        self.p >= self.b.len()
    }
    /// returns (field, wire, value) where value is Varint(u64) or Bytes or Fixed
    fn field(&mut self) -> Result<(u32, Wire<'a>), String> {
        let t = self.varint()?;
        let field = (t >> 3) as u32;
        if field == 0 {
            return Err("field number 0".into());
        }
        let w = match t & 7 {
            0 => Wire::Varint(self.varint()?),
            1 => {
                if self.p + 8 > self.b.len() {
                    return Err("truncated fixed64".into());
                }
                let v = u64::from_le_bytes(self.b[self.p..self.p + 8].try_into().unwrap());
                self.p += 8;
                Wire::Fixed64(v)
            }
            2 => Wire::Bytes(self.bytes()?),
            5 => {
                if self.p + 4 > self.b.len() {
                    return Err("truncated fixed32".into());
                }
                let v = u32::from_le_bytes(self.b[self.p..self.p + 4].try_into().unwrap());
                self.p += 4;
                Wire::Fixed32(v)
            }
            x => return Err(format!("unsupported wire type {}", x)),
        };
        Ok((field, w))
    }
}
#[derive(Debug, Clone, Copy)]
enum Wire<'a> {
    Varint(u64),
    Fixed64(u64),
    Bytes(&'a [u8]),
    Fixed32(u32),
}

// ------------------------------------------------------------------ decoded model

#[derive(Clone, Debug, Default, PartialEq, Eq, Serialize, Deserialize)]
pub struct Descriptor {
    pub checksum: Vec<u8>,
    pub archive_size: u32,
    pub archive_offset: u64,
    pub source_size: u32,
}
#[derive(Clone, Debug, Default, PartialEq, Eq, Serialize, Deserialize)]
pub struct ChunkerParams {
    pub chunk_filter_bits: u32,
    pub min_chunk_size: u32,
    pub max_chunk_size: u32,
    pub rolling_hash_window_size: u32,
    pub chunk_hash_length: u32,
    pub chunking_algorithm: u32, // 0 buzhash 1 rollsum 2 fixed
}
#[derive(Clone, Debug, Default, PartialEq, Eq, Serialize, Deserialize)]
pub struct ChunkCompression {
    pub compression: u32, // 0 none 1 lzma 2 zstd 3 brotli
    pub compression_level: u32,
}
#[derive(Clone, Debug, Default, PartialEq, Eq, Serialize, Deserialize)]
pub struct Dictionary {
    pub application_version: String,
    pub source_checksum: Vec<u8>,
    pub source_total_size: u64,
    pub chunker_params: Option<ChunkerParams>,
    pub chunk_compression: Option<ChunkCompression>,
    pub rebuild_order: Vec<u32>,
    pub chunk_descriptors: Vec<Descriptor>,
    pub metadata: BTreeMap<String, Vec<u8>>,
    /// number of unknown fields skipped while decoding (all levels)
    #[serde(default)]
    pub unknown_fields: u32,
}

#[derive(Clone, Debug, PartialEq, Eq)]
pub struct Header {
    pub legacy_magic: bool,
    pub dictionary_size: u64,
    pub dictionary: Dictionary,
    pub chunk_data_offset: u64,
    pub checksum: Vec<u8>, // 64 bytes as stored
    pub header_len: usize, // 6 + 8 + dict + 8 + 64
}

fn as_varint(w: Wire) -> Result<u64, String> {
    match w {
        Wire::Varint(v) => Ok(v),
        _ => Err("expected varint".into()),
    }
}
fn as_bytes(w: Wire) -> Result<&[u8], String> {
    match w {
        Wire::Bytes(v) => Ok(v),
        _ => Err("expected length-delimited".into()),
    }
}

fn decode_descriptor(b: &[u8], unknown: &mut u32) -> Result<Descriptor, String> {
    let mut r = Rd { b, p: 0 };
    let mut d = Descriptor::default();
    while !r.done() {
        let (f, w) = r.field()?;
        match f {
            1 => d.checksum = as_bytes(w)?.to_vec(),
            3 => d.archive_size = as_varint(w)? as u32,
            4 => d.archive_offset = as_varint(w)?,
            5 => d.source_size = as_varint(w)? as u32,
            _ => *unknown += 1,
        }
    }
    Ok(d)
}
fn decode_params(b: &[u8], unknown: &mut u32) -> Result<ChunkerParams, String> {
    let mut r = Rd { b, p: 0 };
    let mut d = ChunkerParams::default();
    while !r.done() {
        let (f, w) = r.field()?;
        match f {
            1 => d.chunk_filter_bits = as_varint(w)? as u32,
            2 => d.min_chunk_size = as_varint(w)? as u32,
            3 => d.max_chunk_size = as_varint(w)? as u32,
            4 => d.rolling_hash_window_size = as_varint(w)? as u32,
            5 => d.chunk_hash_length = as_varint(w)? as u32,
            6 => d.chunking_algorithm = as_varint(w)? as u32,
            _ => *unknown += 1,
        }
    }
    Ok(d)
}
fn decode_compression(b: &[u8], unknown: &mut u32) -> Result<ChunkCompression, String> {
    let mut r = Rd { b, p: 0 };
    let mut d = ChunkCompression::default();
    while !r.done() {
        let (f, w) = r.field()?;
        match f {
            2 => d.compression = as_varint(w)? as u32,
            3 => d.compression_level = as_varint(w)? as u32,
            _ => *unknown += 1,
        }
    }
    Ok(d)
}

pub fn decode_dictionary(b: &[u8]) -> Result<Dictionary, String> {
    let mut r = Rd { b, p: 0 };
    let mut d = Dictionary::default();
    let mut unknown = 0u32;
    while !r.done() {
        let (f, w) = r.field()?;
        match f {
            1 => d.application_version = String::from_utf8(as_bytes(w)?.to_vec()).map_err(|_| "version not utf8")?,
            2 => d.source_checksum = as_bytes(w)?.to_vec(),
            3 => d.source_total_size = as_varint(w)?,
            4 => d.chunker_params = Some(decode_params(as_bytes(w)?, &mut unknown)?),
            5 => d.chunk_compression = Some(decode_compression(as_bytes(w)?, &mut unknown)?),
            6 => match w {
                Wire::Varint(v) => d.rebuild_order.push(v as u32),
                Wire::Bytes(p) => {
                    let mut pr = Rd { b: p, p: 0 };
                    while !pr.done() {
                        d.rebuild_order.push(pr.varint()? as u32);
                    }
                }
                _ => return Err("rebuild_order: bad wire type".into()),
            },
            7 => d.chunk_descriptors.push(decode_descriptor(as_bytes(w)?, &mut unknown)?),
            8 => {
                let mut er = Rd { b: as_bytes(w)?, p: 0 };
                let mut k = String::new();
                let mut v = Vec::new();
                while !er.done() {
                    let (ef, ew) = er.field()?;
                    match ef {
                        1 => k = String::from_utf8(as_bytes(ew)?.to_vec()).map_err(|_| "metadata key not utf8")?,
                        2 => v = as_bytes(ew)?.to_vec(),
                        _ => unknown += 1,
                    }
                }
                d.metadata.insert(k, v);
            }
            _ => unknown += 1,
        }
    }
    d.unknown_fields = unknown;
    Ok(d)
}

/// Decode the header of an archive held completely in memory.
pub fn decode_header(a: &[u8]) -> Result<Header, String> {
    if a.len() < 14 {
        return Err("shorter than the pre-header".into());
    }
    let legacy = if &a[..6] == MAGIC {
        false
    } else if &a[..6] == LEGACY_MAGIC {
        true
    } else {
        return Err("bad magic".into());
    };
    let dsize = u64::from_le_bytes(a[6..14].try_into().unwrap());
    let end = 14u64
        .checked_add(dsize)
        .and_then(|x| x.checked_add(72))
        .ok_or("dictionary size overflow")?;
    if end > a.len() as u64 {
        return Err("header extends beyond the file".into());
    }
    let dsize_us = dsize as usize;
    let dict_bytes = &a[14..14 + dsize_us];
    let off_pos = 14 + dsize_us;
    let chunk_data_offset = u64::from_le_bytes(a[off_pos..off_pos + 8].try_into().unwrap());
    let stored = &a[off_pos + 8..off_pos + 72];
    let mut h = Blake2b512::new();
    h.update(&a[..off_pos + 8]);
    if h.finalize()[..] != *stored {
        return Err("header checksum mismatch".into());
    }
    let dictionary = decode_dictionary(dict_bytes)?;
    Ok(Header {
        legacy_magic: legacy,
        dictionary_size: dsize,
        dictionary,
        chunk_data_offset,
        checksum: stored.to_vec(),
        header_len: off_pos + 72,
    })
}

// ------------------------------------------------------------------ encoder

/// Extra unknown fields to sprinkle into the encoding (C17) — (field number, wire type, payload)
#[derive(Clone, Debug, Default, Serialize, Deserialize, PartialEq)]
pub struct Unknowns {
    pub dict: Vec<(u32, u8, Vec<u8>)>,
    pub descriptor: Vec<(u32, u8, Vec<u8>)>,
    pub params: Vec<(u32, u8, Vec<u8>)>,
    pub compression: Vec<(u32, u8, Vec<u8>)>,
}

fn put_unknown(out: &mut Vec<u8>, u: &(u32, u8, Vec<u8>)) {
    let (field, wire, payload) = u;
    match wire {
        0 => {
            let mut v = 0u64;
            for (i, b) in payload.iter().take(8).enumerate() {
                v |= (*b as u64) << (8 * i);
            }
            put_varint_field(out, *field, v);
        }
        1 => {
            put_tag(out, *field, 1);
            let mut b = [0u8; 8];
            for (i, x) in payload.iter().take(8).enumerate() {
                b[i] = *x;
            }
            out.extend_from_slice(&b);
        }
        5 => {
            put_tag(out, *field, 5);
            let mut b = [0u8; 4];
            for (i, x) in payload.iter().take(4).enumerate() {
                b[i] = *x;
            }
            out.extend_from_slice(&b);
        }
        _ => put_bytes_field(out, *field, payload),
    }
}

#[derive(Clone, Copy, Debug, Default, Serialize, Deserialize, PartialEq)]
pub struct EncodeOpts {
    /// write zero-valued scalar fields explicitly (proto3 writers may omit them; readers must accept both)
    pub explicit_zeros: bool,
    /// write rebuild_order unpacked (one varint field per element)
    pub unpacked_rebuild: bool,
}

pub fn encode_descriptor(d: &Descriptor, o: &EncodeOpts, unk: &[(u32, u8, Vec<u8>)]) -> Vec<u8> {
    let mut b = Vec::new();
    if !d.checksum.is_empty() || o.explicit_zeros {
        put_bytes_field(&mut b, 1, &d.checksum);
    }
    if d.archive_size != 0 || o.explicit_zeros {
        put_varint_field(&mut b, 3, d.archive_size as u64);
    }
    if d.archive_offset != 0 || o.explicit_zeros {
        put_varint_field(&mut b, 4, d.archive_offset);
    }
    if d.source_size != 0 || o.explicit_zeros {
        put_varint_field(&mut b, 5, d.source_size as u64);
    }
    for u in unk {
        put_unknown(&mut b, u);
    }
    b
}
pub fn encode_params(p: &ChunkerParams, o: &EncodeOpts, unk: &[(u32, u8, Vec<u8>)]) -> Vec<u8> {
    let mut b = Vec::new();
    let vals = [
        (1, p.chunk_filter_bits),
        (2, p.min_chunk_size),
        (3, p.max_chunk_size),
        (4, p.rolling_hash_window_size),
        (5, p.chunk_hash_length),
        (6, p.chunking_algorithm),
    ];
    for (f, v) in vals {
        if v != 0 || o.explicit_zeros {
            put_varint_field(&mut b, f, v as u64);
        }
    }
    for u in unk {
        put_unknown(&mut b, u);
    }
    b
}
pub fn encode_compression(c: &ChunkCompression, o: &EncodeOpts, unk: &[(u32, u8, Vec<u8>)]) -> Vec<u8> {
    let mut b = Vec::new();
    if c.compression != 0 || o.explicit_zeros {
        put_varint_field(&mut b, 2, c.compression as u64);
    }
    if c.compression_level != 0 || o.explicit_zeros {
        put_varint_field(&mut b, 3, c.compression_level as u64);
    }
    for u in unk {
        put_unknown(&mut b, u);
    }
    b
}

pub fn encode_dictionary(d: &Dictionary, o: &EncodeOpts, unk: &Unknowns) -> Vec<u8> {
    let mut b = Vec::new();
    // unknown fields first half, known fields, unknown second half (readers must not care)
    let half = unk.dict.len() / 2;
    for u in &unk.dict[..half] {
        put_unknown(&mut b, u);
    }
    if !d.application_version.is_empty() || o.explicit_zeros {
        put_bytes_field(&mut b, 1, d.application_version.as_bytes());
    }
    if !d.source_checksum.is_empty() || o.explicit_zeros {
        put_bytes_field(&mut b, 2, &d.source_checksum);
    }
    if d.source_total_size != 0 || o.explicit_zeros {
        put_varint_field(&mut b, 3, d.source_total_size);
    }
    if let Some(p) = &d.chunker_params {
        put_bytes_field(&mut b, 4, &encode_params(p, o, &unk.params));
    }
    if let Some(c) = &d.chunk_compression {
        put_bytes_field(&mut b, 5, &encode_compression(c, o, &unk.compression));
    }
    if !d.rebuild_order.is_empty() {
        if o.unpacked_rebuild {
            for v in &d.rebuild_order {
                put_varint_field(&mut b, 6, *v as u64);
            }
        } else {
            let mut p = Vec::new();
            for v in &d.rebuild_order {
                put_varint(&mut p, *v as u64);
            }
            put_bytes_field(&mut b, 6, &p);
        }
    }
    for cd in &d.chunk_descriptors {
        put_bytes_field(&mut b, 7, &encode_descriptor(cd, o, &unk.descriptor));
    }
    for (k, v) in &d.metadata {
        let mut e = Vec::new();
        put_bytes_field(&mut e, 1, k.as_bytes());
        put_bytes_field(&mut e, 2, v);
        put_bytes_field(&mut b, 8, &e);
    }
    for u in &unk.dict[half..] {
        put_unknown(&mut b, u);
    }
    b
}

/// Build a header around already encoded dictionary bytes, with explicit field values
/// (so that mutated / inconsistent values can be written with a *valid* checksum).
pub fn build_header_raw(legacy_magic: bool, dict_size_field: u64, dict_bytes: &[u8], chunk_data_offset: u64) -> Vec<u8> {
    let mut h = Vec::with_capacity(dict_bytes.len() + 86);
    h.extend_from_slice(if legacy_magic { LEGACY_MAGIC } else { MAGIC });
    h.extend_from_slice(&dict_size_field.to_le_bytes());
    h.extend_from_slice(dict_bytes);
    h.extend_from_slice(&chunk_data_offset.to_le_bytes());
    let mut hasher = Blake2b512::new();
    hasher.update(&h);
    h.extend_from_slice(&hasher.finalize());
    h
}

pub fn header_len_for(dict_len: usize) -> usize {
    6 + 8 + dict_len + 8 + 64
}

pub fn blake2b512(data: &[u8]) -> Vec<u8> {
    let mut h = Blake2b512::new();
    h.update(data);
    h.finalize().to_vec()
}
