//! R4 — reorder-op interpreter (filled in with C03).
