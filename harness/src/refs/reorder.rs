//! R4 — reorder-op interpreter. Executes a list of ReorderOps (from the public planner) on a cell array
//! whose cells are (chunk id, byte index) | junk, with a memory store, and reports the first Copy /
//! StoreInMem that reads a cell no longer holding the chunk it claims.
#![allow(dead_code)]

use bitar::{HashSum, ReorderOp};
use std::collections::HashMap;

pub type Cell = Option<(u32, u32)>; // (chunk id, byte index); None = junk / unknown

pub struct Interp {
    pub cells: Vec<Cell>,
    pub mem: HashMap<Vec<u8>, (u32, bool)>, // id, filled from an intact location?
    pub stale_stores: usize,
    pub stores: usize,
    pub copies: usize,
    pub overlapping_copies: usize,
}

fn read_ok(cells: &[Cell], source: u64, size: usize, id: u32) -> bool {
    let s = source as usize;
    if s + size > cells.len() {
        return false;
    }
    (0..size).all(|i| cells[s + i] == Some((id, i as u32)))
}

impl Interp {
    pub fn new(cells: Vec<Cell>) -> Self {
        Interp { cells, mem: HashMap::new(), stale_stores: 0, stores: 0, copies: 0, overlapping_copies: 0 }
    }
    /// `id_of`: hash bytes -> chunk id
    pub fn run(&mut self, ops: &[ReorderOp], id_of: &HashMap<Vec<u8>, u32>) -> Result<(), String> {
        for (n, op) in ops.iter().enumerate() {
            match op {
                ReorderOp::Copy { hash, size, source, dest } => {
                    let id = *id_of.get(&key(hash)).ok_or_else(|| format!("op {}: Copy of a chunk unknown to the output index", n))?;
                    match self.mem.remove(&key(hash)) {
                        Some((_, true)) => {}
                        Some((_, false)) => {
                            return Err(format!("plan: op {} writes chunk {} from a memory buffer that was filled from a location no longer holding the chunk", n, id));
                        }
                        None => {
                            if !read_ok(&self.cells, *source, *size, id) {
                                return Err(format!("plan: op {} copies chunk {} ({} bytes) from offset {} but that location no longer holds the chunk (destroyed before it was copied or buffered)", n, id, size, source));
                            }
                        }
                    }
                    self.copies += 1;
                    for d in dest {
                        let d = *d as usize;
                        if self.cells.len() < d + size {
                            self.cells.resize(d + size, None);
                        }
                        if self.cells[d..d + size].iter().any(|c| matches!(c, Some((o, _)) if *o != id)) {
                            self.overlapping_copies += 1;
                        }
                        for i in 0..*size {
                            self.cells[d + i] = Some((id, i as u32));
                        }
                    }
                }
                ReorderOp::StoreInMem { hash, size, source } => {
                    let id = *id_of.get(&key(hash)).ok_or_else(|| format!("op {}: StoreInMem of an unknown chunk", n))?;
                    if !self.mem.contains_key(&key(hash)) {
                        // A buffer filled from a stale location is only an error if a later Copy consumes it
                        // (the planner may emit a StoreInMem for a chunk whose Copy has already been done; the
                        // executor then buffers bytes nobody uses).
                        let intact = read_ok(&self.cells, *source, *size, id);
                        if !intact {
                            self.stale_stores += 1;
                        }
                        self.mem.insert(key(hash), (id, intact));
                        self.stores += 1;
                    }
                }
            }
        }
        Ok(())
    }
}

pub fn key(h: &HashSum) -> Vec<u8> {
    h.slice().to_vec()
}
