//! R1 — reference chunker, written from the property statement and the documented hash
//! definitions. Shares no code with bitar. Two evaluation strategies for the window hash:
//! a closed form evaluated from scratch at every position (obviously correct, O(n·w)) and an
//! incremental one (O(n)) for large inputs; the two are cross-checked by the C09 check itself.
#![allow(dead_code)]

use super::buztable::TABLE;
use crate::gen::{Algo, ChunkerCfg};

const BUZ_SEED: u32 = 0x1032_4195;
const CHAR_OFFSET: u32 = 31;

#[inline]
fn mask(bits: u32) -> u32 {
    debug_assert!((1..=32).contains(&bits));
    if bits >= 32 {
        !0
    } else {
        (1u32 << bits) - 1
    }
}

/// BuzHash of the window `win` (oldest byte first): XOR_j rotl(T[x_j]^seed, w-j), j = 1..w.
pub fn buzhash_closed(win: &[u8]) -> u32 {
    let w = win.len();
    let mut h = 0u32;
    for (j, &x) in win.iter().enumerate() {
        let t = TABLE[x as usize] ^ BUZ_SEED;
        h ^= t.rotate_left(((w - 1 - j) % 32) as u32);
    }
    h
}

/// RollSum of a window given as an accessor over w positions (oldest first); positions before the
/// stream start are byte 0 (bup/rsync convention: the window starts zero-filled).
///   s1 = Σ (x_j + 31),  s2 = Σ (w-j+1)(x_j+31) + 31w(w-1) - 31w(w+1)/2,  sum = s1<<16 | s2&0xffff
pub fn rollsum_closed(win: impl Iterator<Item = u8>, w: usize) -> u32 {
    let w32 = w as u32;
    let mut s1 = 0u32;
    let mut s2 = 0u32;
    for (j, x) in win.enumerate() {
        // j = 0 is the oldest byte: weight w - j
        let v = x as u32 + CHAR_OFFSET;
        s1 = s1.wrapping_add(v);
        s2 = s2.wrapping_add(((w - j) as u32).wrapping_mul(v));
    }
    // constant c = 31 w (w-1) - 31 w (w+1) / 2   (computed mod 2^32; w(w+1) is even)
    let c = CHAR_OFFSET
        .wrapping_mul(w32)
        .wrapping_mul(w32.wrapping_sub(1))
        .wrapping_sub(CHAR_OFFSET.wrapping_mul(((w as u64 * (w as u64 + 1) / 2) & 0xffff_ffff) as u32));
    s2 = s2.wrapping_add(c);
    (s1 << 16) | (s2 & 0xffff)
}

/// Hash of the window of `w` bytes ending just before absolute position `end` (exclusive).
fn window_hash_closed(algo: Algo, data: &[u8], end: usize, w: usize) -> u32 {
    match algo {
        Algo::BuzHash => {
            debug_assert!(end >= w);
            buzhash_closed(&data[end - w..end])
        }
        Algo::RollSum => {
            let it = (0..w).map(|k| {
                let pos = end as isize - w as isize + k as isize;
                if pos < 0 {
                    0u8
                } else {
                    data[pos as usize]
                }
            });
            rollsum_closed(it, w)
        }
        Algo::FixedSize => unreachable!(),
    }
}

/// Incremental window hashes over the whole stream: h[i] = hash of the window ending at i (exclusive).
struct Incremental<'a> {
    algo: Algo,
    data: &'a [u8],
    w: usize,
    pos: usize, // hash is valid for the window ending at `pos`
    h: u32,
    s1: u32,
    s2: u32,
}
impl<'a> Incremental<'a> {
    fn new(algo: Algo, data: &'a [u8], w: usize) -> Self {
        let w32 = w as u32;
        Incremental {
            algo,
            data,
            w,
            pos: 0,
            h: 0,
            // all-zero virtual window
            s1: w32.wrapping_mul(CHAR_OFFSET),
            s2: w32.wrapping_mul(w32.wrapping_sub(1)).wrapping_mul(CHAR_OFFSET),
        }
    }
    fn byte(&self, p: isize) -> u8 {
        if p < 0 {
            0
        } else {
            self.data[p as usize]
        }
    }
    fn advance_to(&mut self, end: usize) {
        while self.pos < end {
            let x = self.data[self.pos];
            match self.algo {
                Algo::BuzHash => {
                    let t_in = TABLE[x as usize] ^ BUZ_SEED;
                    if self.pos < self.w {
                        // priming: window not yet full, build the closed form directly
                        self.h = self.h.rotate_left(1) ^ t_in;
                    } else {
                        let out = self.data[self.pos - self.w];
                        let t_out = TABLE[out as usize] ^ BUZ_SEED;
                        self.h = self.h.rotate_left(1) ^ t_out.rotate_left((self.w % 32) as u32) ^ t_in;
                    }
                }
                Algo::RollSum => {
                    let drop = self.byte(self.pos as isize - self.w as isize) as u32;
                    self.s1 = self.s1.wrapping_add(x as u32).wrapping_sub(drop);
                    self.s2 = self
                        .s2
                        .wrapping_add(self.s1)
                        .wrapping_sub((self.w as u32).wrapping_mul(drop + CHAR_OFFSET));
                }
                Algo::FixedSize => unreachable!(),
            }
            self.pos += 1;
        }
    }
    fn sum(&self) -> u32 {
        match self.algo {
            Algo::BuzHash => self.h,
            Algo::RollSum => (self.s1 << 16) | (self.s2 & 0xffff),
            Algo::FixedSize => unreachable!(),
        }
    }
}

#[derive(Clone, Copy, Debug, PartialEq, Eq)]
pub enum CutKind {
    Hash,
    Max,
    Tail,
    Fixed,
}

#[derive(Clone, Debug, PartialEq, Eq)]
pub struct RefChunk {
    pub offset: usize,
    pub len: usize,
    pub kind: CutKind,
}

/// The rule of C09: for a chunk starting at s, cut at the smallest p in [max(min,1), max] such that
/// the hash of the w bytes ending at s+p has all filter bits set; else at max; else the tail at EOF.
/// Stream-start conventions (taken from the code's documented initial state, see DESIGN.md §4):
///  * RollSum: the window is zero-filled before the stream starts;
///  * BuzHash: no boundary test until w+1 bytes of the stream have been consumed.
pub fn ref_chunks(cfg: &ChunkerCfg, data: &[u8], closed_form: bool) -> Vec<RefChunk> {
    let n = data.len();
    let mut out = Vec::new();
    if cfg.algo == Algo::FixedSize {
        let mut s = 0;
        while s < n {
            let len = cfg.max.min(n - s);
            out.push(RefChunk {
                offset: s,
                len,
                kind: if len == cfg.max { CutKind::Fixed } else { CutKind::Tail },
            });
            s += len;
        }
        return out;
    }
    let m = mask(cfg.bits);
    let w = cfg.window;
    let lo = cfg.min.max(1);
    let mut inc = Incremental::new(cfg.algo, data, w);
    let mut s = 0usize;
    while s < n {
        let rem = n - s;
        let hi = cfg.max.min(rem);
        let mut cut = None;
        let mut p = lo;
        while p <= hi {
            let end = s + p;
            let testable = match cfg.algo {
                Algo::BuzHash => end >= w + 1,
                _ => true,
            };
            if testable {
                let h = if closed_form {
                    window_hash_closed(cfg.algo, data, end, w)
                } else {
                    inc.advance_to(end);
                    inc.sum()
                };
                if h & m == m {
                    cut = Some(p);
                    break;
                }
            }
            p += 1;
        }
        let (len, kind) = match cut {
            Some(p) => (p, CutKind::Hash),
            None if rem >= cfg.max => (cfg.max, CutKind::Max),
            None => (rem, CutKind::Tail),
        };
        out.push(RefChunk { offset: s, len, kind });
        s += len;
    }
    out
}

/// Convenience: (offset,len) list.
pub fn ref_cuts(cfg: &ChunkerCfg, data: &[u8]) -> Vec<(usize, usize)> {
    ref_chunks(cfg, data, data.len() <= 4096)
        .into_iter()
        .map(|c| (c.offset, c.len))
        .collect()
}
