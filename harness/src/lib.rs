//! bverif — verification harness for oll3/bita (library part, shared by the `bverif` binary and the fuzz targets).
pub mod enc;
pub mod engine;
pub mod fuzzglue;
pub mod gen;
pub mod http;
pub mod iod;
pub mod l1;
pub mod l2;
pub mod scen;
pub mod props;
pub mod refs;
pub mod util;
