use bverif::{engine, props};

use engine::Tier;
use std::path::PathBuf;

fn usage() -> ! {
    eprintln!("usage: bverif <ID> [--tier quick|thorough] [--replay FILE] [--workers N] [--worker i/N --out FILE]");
    std::process::exit(2);
}

fn main() {
    let args: Vec<String> = std::env::args().skip(1).collect();
    if args.is_empty() {
        usage();
    }
    if args[0] == "--lib-compress" {
        // helper mode: run bitar's library writer once in a process without any history (see l1::compress_lib_fresh_process)
        let (Some(job), Some(out)) = (args.get(1), args.get(2)) else { usage() };
        std::process::exit(bverif::l1::lib_compress_main(std::path::Path::new(job), std::path::Path::new(out)));
    }
    let id = args[0].clone();
    let mut tier = match std::env::var("VERIF_TIER").as_deref() {
        Ok("thorough") => Tier::Thorough,
        _ => Tier::Quick,
    };
    let mut replay: Option<PathBuf> = None;
    let mut workers: usize = std::env::var("VERIF_WORKERS").ok().and_then(|s| s.parse().ok()).unwrap_or(16);
    let mut worker: Option<(usize, usize)> = None;
    let mut out: Option<PathBuf> = None;
    let mut i = 1;
    while i < args.len() {
        match args[i].as_str() {
            "--tier" => {
                i += 1;
                tier = match args.get(i).map(|s| s.as_str()) {
                    Some("quick") => Tier::Quick,
                    Some("thorough") => Tier::Thorough,
                    _ => usage(),
                };
            }
            "--replay" => {
                i += 1;
                replay = Some(PathBuf::from(args.get(i).unwrap_or_else(|| usage())));
            }
            "--workers" => {
                i += 1;
                workers = args.get(i).and_then(|s| s.parse().ok()).unwrap_or_else(|| usage());
            }
            "--worker" => {
                i += 1;
                let s = args.get(i).unwrap_or_else(|| usage());
                let (a, b) = s.split_once('/').unwrap_or_else(|| usage());
                worker = Some((a.parse().unwrap(), b.parse().unwrap()));
            }
            "--out" => {
                i += 1;
                out = Some(PathBuf::from(args.get(i).unwrap_or_else(|| usage())));
            }
            _ => usage(),
        }
        i += 1;
    }
    let seed: u64 = std::env::var("VERIF_SEED").ok().and_then(|s| s.parse::<i128>().ok()).map(|v| v as u64).unwrap_or(1);
    let reg = props::registry();
    let Some(prop) = reg.iter().find(|p| p.id() == id) else {
        eprintln!("unknown property {}", id);
        std::process::exit(2);
    };
    if let Some(path) = replay {
        std::process::exit(engine::replay_main(prop.as_ref(), &path));
    }
    if let Some((w, n)) = worker {
        engine::worker_main(prop.as_ref(), tier, seed, w, n, &out.expect("--out"));
        return;
    }
    std::process::exit(engine::parent_main(prop.as_ref(), tier, seed, workers));
}
