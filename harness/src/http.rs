//! Scripted HTTP/1.1 server (std TcpListener, one thread). Logs every request's Range; each request
//! is answered according to a per-request action. `Connection: close` on every response, so one
//! request = one connection and the log order is the request order.
#![allow(dead_code)]

use serde::{Deserialize, Serialize};
use std::io::{Read, Write};
use std::net::{TcpListener, TcpStream};
use std::sync::atomic::{AtomicBool, Ordering};
use std::sync::{Arc, Mutex};

#[derive(Clone, Debug, Serialize, Deserialize, PartialEq)]
pub enum Body {
    /// the correct bytes of the requested range
    Range,
    /// bytes of the right length but wrong content
    Wrong,
    /// an HTML-ish error page padded / cut to exactly the requested length
    Page,
    /// the correct range followed by k extra bytes
    Extra(usize),
    /// only the first k bytes of the range, with a consistent Content-Length (clean early end)
    Short(usize),
    Empty,
}

#[derive(Clone, Debug, Serialize, Deserialize, PartialEq)]
pub struct Action {
    pub status: u16,
    pub body: Body,
    /// send only this many body bytes, then close (FIN) although Content-Length promised more
    pub cut_after: Option<usize>,
    /// accept the connection and close it without any response
    pub drop: bool,
    /// body is flushed in pieces of these sizes (cycled); empty = one piece
    pub pieces: Vec<usize>,
    /// use Transfer-Encoding: chunked with the piece sizes as chunk sizes
    pub chunked: bool,
    /// sleep this many microseconds after each piece so that the client observes separate reads
    #[serde(default)]
    pub pace_us: u32,
    /// announce this Content-Length whatever the body's real length is (a lying or broken server); the body is sent as it
    /// is and the connection closed
    #[serde(default)]
    pub declared_len: Option<u64>,
    /// add a `Location:` header pointing back at the same URL (with a 3xx status: a redirect loop)
    #[serde(default)]
    pub redirect_self: bool,
    /// after the last body byte that is sent (see `cut_after`) keep the connection open and silent for up to this many
    /// milliseconds (or until the client hangs up), then close: a server that stalls mid-transfer
    #[serde(default)]
    pub stall_ms: u32,
    /// chunked transfer encoding: close the connection after the last data chunk WITHOUT the terminating zero-length
    /// chunk (a connection cut exactly at the end of the body: every requested byte has arrived)
    #[serde(default)]
    pub omit_last_chunk: bool,
    /// (k, ms): after k body bytes have been sent the server is silent for ms milliseconds, then carries on with the rest of
    /// the body (a slow server, not a failing one)
    #[serde(default)]
    pub pause_after: Option<(usize, u32)>,
}
impl Default for Action {
    fn default() -> Self {
        Action { status: 206, body: Body::Range, cut_after: None, drop: false, pieces: vec![], chunked: false, pace_us: 0, declared_len: None, redirect_self: false, stall_ms: 0, omit_last_chunk: false, pause_after: None }
    }
}

#[derive(Clone, Debug, Serialize, Deserialize, PartialEq)]
pub enum When {
    /// the n-th request overall (0-based)
    Nth(usize),
    /// the n-th request that asks for chunk data (range start >= header length given to the server)
    NthData(usize),
    /// every request whose range starts at this offset
    RangeStart(u64),
    Always,
}

#[derive(Clone, Debug, Default, Serialize, Deserialize, PartialEq)]
pub struct Script {
    pub rules: Vec<(When, Action)>,
    /// after this many requests the server only accepts-and-drops and raises `overrun` (0 = 4000): a clock-free
    /// bound on the work a client may cause
    #[serde(default)]
    pub max_requests: usize,
    /// requests with range start >= data_from count as "data" requests
    pub data_from: u64,
}

#[derive(Clone, Debug, PartialEq, Eq)]
pub struct ReqLog {
    pub index: usize,
    pub range: Option<(u64, u64)>,
    pub sent_body: usize,
    pub status: u16,
}

pub struct Server {
    pub overrun: Arc<AtomicBool>,
    pub port: u16,
    pub ip: String,
    pub log: Arc<Mutex<Vec<ReqLog>>>,
    stop: Arc<AtomicBool>,
    thread: Option<std::thread::JoinHandle<()>>,
}

fn parse_range(req: &str) -> Option<(u64, u64)> {
    for line in req.split("\r\n") {
        let Some((k, v)) = line.split_once(':') else { continue };
        if k.trim().eq_ignore_ascii_case("range") {
            let v = v.trim();
            let v = v.strip_prefix("bytes=")?;
            let (a, b) = v.split_once('-')?;
            return Some((a.trim().parse().ok()?, b.trim().parse().ok()?));
        }
    }
    None
}

fn handle(mut s: TcpStream, data: &Arc<Vec<u8>>, script: &Script, index: usize, data_index: &mut usize, log: &Arc<Mutex<Vec<ReqLog>>>) {
    let _ = s.set_nodelay(true);
    let _ = s.set_read_timeout(Some(std::time::Duration::from_secs(10)));
    let mut req = Vec::new();
    let mut buf = [0u8; 2048];
    loop {
        match s.read(&mut buf) {
            Ok(0) => break,
            Ok(n) => {
                req.extend_from_slice(&buf[..n]);
                if req.windows(4).any(|w| w == b"\r\n\r\n") || req.len() > 65536 {
                    break;
                }
            }
            Err(_) => break,
        }
    }
    if req.is_empty() {
        return; // wake-up connection
    }
    let req_s = String::from_utf8_lossy(&req).to_string();
    let range = parse_range(&req_s);
    let is_data = range.map(|r| r.0 >= script.data_from).unwrap_or(false);
    let my_data_index = *data_index;
    if is_data {
        *data_index += 1;
    }
    let action = script
        .rules
        .iter()
        .find(|(w, _)| match w {
            When::Nth(n) => *n == index,
            When::NthData(n) => is_data && *n == my_data_index,
            When::RangeStart(o) => range.map(|r| r.0 == *o).unwrap_or(false),
            When::Always => true,
        })
        .map(|(_, a)| a.clone())
        .unwrap_or_default();
    // the request is logged as soon as it has been read (the client may finish before we return)
    let slot = {
        let mut l = log.lock().unwrap();
        l.push(ReqLog { index, range, sent_body: 0, status: 0 });
        l.len() - 1
    };
    if action.drop {
        let _ = s.shutdown(std::net::Shutdown::Both);
        return;
    }
    // the correct bytes
    let (status, correct): (u16, Vec<u8>) = match range {
        Some((a, b)) => {
            let len = data.len() as u64;
            if a >= len {
                (416, vec![])
            } else {
                let e = (b.saturating_add(1)).min(len);
                (206, data[a as usize..e as usize].to_vec())
            }
        }
        None => (200, data.to_vec()),
    };
    // requested length, capped (a corrupted size field can make the client ask for terabytes)
    let want_len = range.map(|(a, b)| (b.saturating_sub(a).saturating_add(1)).min(1 << 20) as usize).unwrap_or(data.len());
    let body: Vec<u8> = match &action.body {
        Body::Range => correct,
        Body::Wrong => correct.iter().map(|b| b ^ 0x5a).collect(),
        Body::Page => {
            let mut p = b"<html><head><title>404 Not Found</title></head><body><h1>Not Found</h1></body></html>\n".to_vec();
            while p.len() < want_len {
                p.extend_from_slice(b"<!-- padding to the requested length -->\n");
            }
            p.truncate(want_len);
            p
        }
        Body::Extra(k) => {
            let mut c = correct;
            c.extend(std::iter::repeat(0xEEu8).take(*k));
            c
        }
        Body::Short(k) => correct[..(*k).min(correct.len())].to_vec(),
        Body::Empty => vec![],
    };
    let status = if action.status == 206 && action.body == Body::Range { status } else { action.status };
    let reason = match status {
        200 => "OK",
        204 => "No Content",
        301 => "Moved Permanently",
        302 => "Found",
        400 => "Bad Request",
        503 => "Service Unavailable",
        206 => "Partial Content",
        404 => "Not Found",
        416 => "Range Not Satisfiable",
        500 => "Internal Server Error",
        _ => "Status",
    };
    let mut head = format!("HTTP/1.1 {} {}\r\nConnection: close\r\nContent-Type: application/octet-stream\r\n", status, reason);
    if action.redirect_self {
        head.push_str("Location: /archive.cba\r\n");
    }
    if action.chunked {
        head.push_str("Transfer-Encoding: chunked\r\n\r\n");
    } else {
        head.push_str(&format!("Content-Length: {}\r\n\r\n", action.declared_len.unwrap_or(body.len() as u64)));
    }
    log.lock().unwrap()[slot].status = status;
    if s.write_all(head.as_bytes()).is_err() {
        return;
    }
    let _ = s.flush();
    let limit = action.cut_after.unwrap_or(usize::MAX).min(body.len());
    let mut sent = 0usize;
    let mut piece_i = 0usize;
    let mut ok = true;
    let mut paused = false;
    while sent < limit && ok {
        let mut psz = if action.pieces.is_empty() { limit - sent } else { action.pieces[piece_i % action.pieces.len()].max(1) };
        if let Some((k, ms)) = action.pause_after {
            if !paused && sent >= k {
                paused = true;
                std::thread::sleep(std::time::Duration::from_millis(ms as u64));
            } else if !paused && sent + psz > k {
                psz = k - sent; // stop this piece at the pause point
            }
        }
        if psz == 0 {
            continue;
        }
        piece_i += 1;
        let n = psz.min(limit - sent);
        if action.chunked {
            // the chunk header promises the full piece even if we cut inside it
            let promised = psz.min(body.len() - sent);
            ok &= s.write_all(format!("{:x}\r\n", promised).as_bytes()).is_ok();
            ok &= s.write_all(&body[sent..sent + n]).is_ok();
            if n == promised {
                ok &= s.write_all(b"\r\n").is_ok();
            }
        } else {
            ok &= s.write_all(&body[sent..sent + n]).is_ok();
        }
        let _ = s.flush();
        sent += n;
        if !action.pieces.is_empty() {
            // let the client observe separate reads
            if action.pace_us > 0 {
                std::thread::sleep(std::time::Duration::from_micros(action.pace_us as u64));
            } else {
                std::thread::yield_now();
            }
        }
    }
    if action.chunked && action.cut_after.map(|c| c >= body.len()).unwrap_or(true) && ok && !action.omit_last_chunk {
        let _ = s.write_all(b"0\r\n\r\n");
    }
    let _ = s.flush();
    log.lock().unwrap()[slot].sent_body = sent;
    if action.stall_ms > 0 {
        let t0 = std::time::Instant::now();
        let _ = s.set_read_timeout(Some(std::time::Duration::from_millis(50)));
        let mut sink = [0u8; 64];
        while t0.elapsed().as_millis() < action.stall_ms as u128 {
            match s.read(&mut sink) {
                Ok(0) => break, // the client gave up
                Ok(_) => {}
                Err(e) if matches!(e.kind(), std::io::ErrorKind::WouldBlock | std::io::ErrorKind::TimedOut) => {}
                Err(_) => break,
            }
        }
    }
    // FIN, then drain what the client may still send so that the close is not a RST
    let _ = s.shutdown(std::net::Shutdown::Write);
    let _ = s.set_read_timeout(Some(std::time::Duration::from_millis(200)));
    let mut sink = [0u8; 256];
    loop {
        match s.read(&mut sink) {
            Ok(0) | Err(_) => break,
            Ok(_) => {}
        }
    }
}

impl Server {
    pub fn start(data: Arc<Vec<u8>>, script: Script) -> Server {
        // Every server gets its own loopback address (all of 127.0.0.0/8 is local on Linux): thousands of short
        // connections leave TIME_WAIT sockets behind, and with a single address the ephemeral ports run out.
        static COUNTER: std::sync::atomic::AtomicU32 = std::sync::atomic::AtomicU32::new(0);
        let mut attempt = 0;
        let (listener, ip) = loop {
            let n = COUNTER.fetch_add(1, Ordering::Relaxed);
            let pid = std::process::id();
            let ip = format!("127.{}.{}.{}", 1 + (pid % 250), 1 + ((n / 250) % 250), 1 + (n % 250));
            match TcpListener::bind((ip.as_str(), 0)) {
                Ok(l) => break (l, ip),
                Err(e) => {
                    attempt += 1;
                    if attempt > 200 {
                        panic!("harness: cannot bind a loopback listener: {}", e);
                    }
                    std::thread::sleep(std::time::Duration::from_millis(5 * attempt));
                }
            }
        };
        let port = listener.local_addr().unwrap().port();
        let log = Arc::new(Mutex::new(vec![]));
        let stop = Arc::new(AtomicBool::new(false));
        let overrun = Arc::new(AtomicBool::new(false));
        let ov2 = overrun.clone();
        let limit = if script.max_requests == 0 { 4000 } else { script.max_requests };
        let (l2, s2) = (log.clone(), stop.clone());
        let thread = std::thread::spawn(move || {
            let mut index = 0usize;
            let mut data_index = 0usize;
            for conn in listener.incoming() {
                if s2.load(Ordering::SeqCst) {
                    break;
                }
                if let Ok(s) = conn {
                    if index >= limit {
                        ov2.store(true, Ordering::SeqCst);
                        let _ = s.shutdown(std::net::Shutdown::Both);
                        continue;
                    }
                    let before = l2.lock().unwrap().len();
                    handle(s, &data, &script, index, &mut data_index, &l2);
                    if l2.lock().unwrap().len() > before {
                        index += 1;
                    }
                }
            }
        });
        Server { overrun, port, ip, log, stop, thread: Some(thread) }
    }
    pub fn url(&self) -> String {
        format!("http://{}:{}/archive.cba", self.ip, self.port)
    }
    pub fn requests(&self) -> Vec<ReqLog> {
        self.log.lock().unwrap().clone()
    }
}
impl Drop for Server {
    fn drop(&mut self) {
        self.stop.store(true, Ordering::SeqCst);
        let _ = TcpStream::connect((self.ip.as_str(), self.port));
        if let Some(t) = self.thread.take() {
            let _ = t.join();
        }
    }
}
