#![no_main]
//! C13 under libFuzzer: the same layouts as fz_layout, judged by the write-log oracle (every write one target chunk at a target offset, once, never at an in-place location).
use libfuzzer_sys::fuzz_target;

fuzz_target!(|data: &[u8]| {
    bverif::fuzzglue::run("C13", data);
});
