#![no_main]
//! C10 under libFuzzer: configuration header + two prefixes + common data as raw bytes; the oracle is the metamorphic statement itself.
use libfuzzer_sys::fuzz_target;

fuzz_target!(|data: &[u8]| {
    bverif::fuzzglue::run("C10", data);
});
