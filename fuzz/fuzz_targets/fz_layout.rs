#![no_main]
//! C03 under libFuzzer: abstract in-place layouts (sizes, prior slots, target slots, hash length) decoded from the fuzz input; the oracle is the check's own (final bytes == target, plan interpreted by R4, nothing reusable left over).
use libfuzzer_sys::fuzz_target;

fuzz_target!(|data: &[u8]| {
    bverif::fuzzglue::run("C03", data);
});
