#![no_main]
//! C17 under libFuzzer: independent encoder layouts driven by the fuzz input.
use libfuzzer_sys::fuzz_target;

fuzz_target!(|data: &[u8]| {
    bverif::fuzzglue::run("C17", data);
});
