#![no_main]
//! C15 under libFuzzer: first byte selects raw archive bytes or the structured mutation strategy.
use libfuzzer_sys::fuzz_target;

fuzz_target!(|data: &[u8]| {
    bverif::fuzzglue::run("C15", data);
});
