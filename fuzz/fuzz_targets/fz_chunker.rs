#![no_main]
//! C09 under libFuzzer: the fuzz input is the random stream of the SAME proptest strategy the check uses
//! (RngAlgorithm::PassThrough), the oracle is the same function (reference chunker R1, tiling, bounds,
//! read independence).
use libfuzzer_sys::fuzz_target;

fuzz_target!(|data: &[u8]| {
    bverif::fuzzglue::run("C09", data);
});
