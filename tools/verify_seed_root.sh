#!/usr/bin/env bash
# like verify_seed.sh, for demos that are integration tests of the ROOT crate (tests/<file>.rs driving target/debug/bita)
set -u
D=$(realpath "$1"); DEMO=$2; T=$3; shift 3
W=/tmp/seed/verify
cd $W || exit 2
git checkout -q -- . ; git clean -fdq bitar/tests tests 2>/dev/null
git -C $W checkout -q --detach $(git -C /repo rev-parse HEAD)
export CARGO_NET_OFFLINE=true RUST_BACKTRACE=0
mkdir -p tests; cp "$D/$DEMO" tests/$DEMO
echo "== demo on unchanged code"
cargo test --offline --test $T "$@" 2>&1 | grep -E "^test result|FAILED|panicked" | head -5
git apply "$D/patch.diff" || { echo "PATCH DOES NOT APPLY on HEAD"; exit 1; }
echo "== demo with patch"
cargo test --offline --test $T "$@" 2>&1 | grep -E "^test result|FAILED" | head -8
rm -rf tests
echo "== full suite with patch"
cargo test --workspace --no-fail-fast --offline 2>&1 | grep -E "^test result" | awk '{p+=$4; f+=$6} END {print "passed",p,"failed",f}'
git checkout -q -- .
