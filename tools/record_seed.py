#!/usr/bin/env python3
"""tools/record_seed.py <spec.json>  — file verified seeded changes under /verif/seeded/<id>/ and add their rows to
DESIGN.md section 13.1.

spec.json: { "<id>": { "property": "C03", "breaks": "...", "needs": "...", "demo": "file.rs (where it goes)",
                        "caught_by": {"C03": "yes" | "yes after strengthening: <why missed> - missed. <what changed>"},
                        "short": "one line for the DESIGN table" } }
The sub-agent's deliverables are expected in /tmp/seed/out_<id>/ (patch.diff, demo, notes.md -> HOWTO.md)."""
import json, os, shutil, sys

spec = json.load(open(sys.argv[1]))
rows = []
for sid, r in spec.items():
    src = f"/tmp/seed/out_{sid}"; dst = f"/verif/seeded/{sid}"
    os.makedirs(dst, exist_ok=True)
    for f in os.listdir(src):
        if f.endswith('.log'):
            continue
        shutil.copy(os.path.join(src, f), os.path.join(dst, f))
    if os.path.exists(os.path.join(dst, 'notes.md')):
        os.replace(os.path.join(dst, 'notes.md'), os.path.join(dst, 'HOWTO.md'))
    meta = {"property": r["property"], "breaks": r["breaks"], "needs": r["needs"], "demo": r["demo"], "caught_by": r["caught_by"],
            "ran": ["tools/verify_seed*.sh in the scratch worktree /tmp/seed/verify at /repo HEAD: demo passes on unchanged code, fails with patch.diff, unedited suite 92/92 with the patch",
                    f"MUT_REPO=/tmp/seed/alt tools/mutant.sh seeded/{sid}/patch.diff <checks> (quick tier)"],
            "written_by": "independent sub-agent given the property text, a scratch worktree and one line per earlier attempt to avoid (tools/mkprompt.py)"}
    json.dump(meta, open(os.path.join(dst, 'meta.json'), 'w'), indent=1)
    note = ""
    for k, v in r["caught_by"].items():
        if v.startswith("yes after strengthening: "):
            t = v[len("yes after strengthening: "):]
            if " - missed. " in t:
                note = f"{k} missed it at first ({t.split(' - missed. ')[0]}): {t.split(' - missed. ')[1]}"
            else:
                note = f"{k} missed it at first: {t}"
    rows.append(f"| {sid} | {r['short']} | {', '.join(r['caught_by'].keys())} | {note} |")
s = open('/verif/DESIGN.md').read()
marker = "\nSix of the first eighteen were missed"
assert marker in s
s = s.replace(marker, "\n" + "\n".join(rows) + "\n" + marker, 1)
open('/verif/DESIGN.md', 'w').write(s)
print(f"recorded {len(rows)}; seeded/ now holds {len(os.listdir('/verif/seeded'))} changes")
