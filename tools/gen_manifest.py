#!/usr/bin/env python3
"""Generate /verif/MANIFEST.json from the table below (kept in one place so that it stays valid)."""
import json, subprocess, sys

HOOK_COMMITS = subprocess.check_output(
    ["git", "-C", "/repo", "log", "--format=%H", "--grep=^verif hook"], text=True).split()

# id -> (level category, level text, level note, technique, design ref)
CHECKS = {
 "C01": ("exploration",
         "Generated round trips (source x chunker x hash length x codec/level x buffered-chunks x writer {library, CLI file, CLI stdin} x reader {library mirror, CLI local, CLI over HTTP incl. paced bodies and a first transfer cut short / unanswered within the retry budget}) with an exact oracle: output == generated source and the header, decoded by an independent codec, records the true size and Blake2b-512. Size landmarks (0, 1, window-1, min-1, min, max-1, max, max+1), the compressed-size==length corner, chunks above the 1 MiB refill buffer and schedule perturbation (runtime shapes, injected syscall delays) are generated on purpose. Search, not proof: it shows the property on everything explored and finds thin classes (it found F1 and F4).",
         "Trusted: harness reference decoder R2, harness Blake2, proptest RNG. Schedules are perturbed, not enumerated.",
         "property-based round-trip testing (proptest) at library and CLI level with delay injection", "6 C01"),
 "C02": ("exploration",
         "Metamorphic property over generated clone scenarios: 1-4 seed streams derived from the source by edit scripts (or unrelated/empty/the source itself), consumed from files and stdin in any order, hash lengths 4..64, with and without prior output; a successful clone must leave exactly the source. By-design truncated-hash collisions are detected exactly and discarded (counted). L1 library mirror plus the real CLI (seed files also as named pipes; 2 cases in 7 with one injected failing output write or seed read: a clone that still reports success is held to the same oracle).",
         "Trusted: reference chunker R1 (used to classify what seeds contain), harness Blake2.",
         "metamorphic property-based testing over generated seed sets (proptest), L1 + CLI", "6 C02"),
 "C03": ("exploration",
         "Bounded-exhaustive enumeration of chunk layouts (all prior/target sequences of <= 4 slots (quick) / 5 (thorough) over 3 reusable identities with sizes 1..3, a junk and an archive-only identity) through the real planner and executor, plus random layouts of up to 60 slots (hash lengths 8..64), layouts with chunks of 1-3 MB moved by less than their own size, a libFuzzer target decoding layouts from bytes (thorough) and real content scenarios (edited prior output scanned by bitar's chunker). Oracles: final bytes == target, the public reorder plan interpreted by an independent cell interpreter never consumes a destroyed chunk, no reusable chunk stays unfetched.",
         "Trusted: interpreter R4, R1 for the scenario variant. Layout domain = non-overlapping tilings (what a scan can produce).",
         "bounded-exhaustive enumeration + property-based testing + coverage-guided fuzzing (libFuzzer) against an independent plan interpreter", "6 C03"),
 "C06": ("exploration",
         "Differential against the reference clone model R3: the set of archive byte ranges requested (recorded at the ArchiveReader boundary, from the iohook read log of the real CLI, and from the HTTP Range log) must be exactly the stored ranges of source chunks that R1 does not find in seeds / prior output, each byte once, plus reads inside the header. Output kinds: new file, existing file with --seed-output, block device (cfg hook on a regular file, and a real loop device with the production binary when losetup works).",
         "Trusted: R1, R2, R3; the cfg(oll3_bita_verif) hook makes a regular file take the block-device path.",
         "differential property-based testing of observed reads against a reference model", "6 C06"),
 "C07": ("exploration",
         "Every subset of descriptors of generated archives with <= 10 descriptors (incl. archives from an independent encoder whose dictionary order is not file order), random subsets of archives with up to 60 descriptors (several fetches through one reader, some abandoned part-way), and CLI clones over HTTP: the server's Range log must equal the maximal runs of adjacent selected descriptors, in order, with exact inclusive bounds.",
         "Trusted: scripted HTTP server (harness), R2 for descriptor ranges. No transfer faults in this check.",
         "bounded-exhaustive subset enumeration + property-based testing of the HTTP request log", "6 C07"),
 "C08": ("fault_enumeration",
         "Scripted fault sequences against both readers: local reads fragmented to 1/2/3/7/random bytes with Pending injected and early EOF; HTTP bodies flushed in pieces or chunked, with per-request faults (accept-and-drop, cut after k bytes, clean early end) and retry budgets 0..3. For small bodies every cut offset x second-step x budget is enumerated. Oracle: items == requested slices; the Range log equals an explicit resume model; exhaustion or early end gives an error after a correct prefix.",
         "Trusted: scripted server and resume model (harness). Server returns correct bytes when it answers; accept-and-drop stands in for connection refused.",
         "fault-script enumeration + property-based testing against a resume model", "6 C08"),
 "C09": ("exploration",
         "Differential against an independent reference chunker R1 (closed-form window hashes): exhaustively all strings of length <= 10 (quick) / 12 (thorough) over {0x00,0x01,0x55} x a grid of tiny configs, hundreds of thousands of random/zero-run-heavy cases with generated read fragmentation and Pending scripts, and multi-MiB inputs with chunks above the refill buffer. Also tiling and min/max bounds. Found F5.",
         "Trusted: R1 and the BuzHash table copied as data; two stream-start conventions are taken from the code's documented initial state (listed in the evidence).",
         "differential property-based testing + bounded-exhaustive enumeration against a reference chunker", "6 C09"),
 "C10": ("exploration",
         "Metamorphic property exactly as stated: chunk P1+S and P2+S with generated prefixes (incl. empty and zero-run endings); after the first common boundary at least a window into S all later boundaries must coincide. Detects any state leaking from before the window (F5). Thorough tier adds a libFuzzer target whose input is the two prefixes and the common data as raw bytes.",
         "No reference model needed; bitar is compared with itself on related inputs.",
         "metamorphic property-based testing (proptest) + coverage-guided fuzzing (libFuzzer)", "6 C10"),
 "C11": ("exploration",
         "Every archive produced by either writer for generated sources/configs/metadata is decoded by the independent codec R2 and judged field by field (layout, offsets, sizes, uniqueness, first-occurrence order, rebuild sums, recorded settings, metadata), its chunk sequence against R1 and the harness's own hash and decompressors; bitar's accessors and `bita info` must report the same values.",
         "Trusted: R1, R2, third-party decompressors linked by the harness.",
         "property-based conformance testing against an independent decoder", "6 C11"),
 "C12": ("exploration",
         "Metamorphic: 3-4 compress runs per case differing in buffered-chunks, runtime shape, read fragmentation, file vs pipe (stdin, -i /dev/stdin, named pipe), sink kind (whole-buffer, short-writing, buffering) and injected delays must be byte-identical, incl. library runs made by a freshly started process vs the long-lived worker; a dedicated 'skew' generator places a slow chunk ahead of hundreds of fast ones.",
         "Schedules are perturbed, not enumerated.",
         "metamorphic property-based testing under schedule perturbation", "6 C12"),
 "C13": ("exploration",
         "Invariant over the complete write log of generated clone scenarios (L1 instrumented output, iohook log of the real CLI) and abstract layouts (also from a libFuzzer target in the thorough tier), plus scenarios with one injected I/O fault that still report success: every write is one source chunk at one of its offsets, each location at most once, never at a location already holding the right chunk, nothing beyond the source length.",
         "Trusted: R1/R3 for 'source chunk' and 'already in place'.",
         "property-based testing + coverage-guided fuzzing (libFuzzer) of an invariant over recorded write histories", "6 C13"),
 "C04": ("fault_enumeration",
         "Every single-bit flip and every truncation length of a pool of generated archives (48 in the quick tier, 600 in the thorough tier; hash length >= 8, all codecs, with and without a seed) is applied and the archive cloned; plus generated multi-byte overwrites, payload swaps, trailing garbage, dictionary-size edits, a misbehaving HTTP server (wrong bytes, 404/500 page of the requested length, short / empty body, a stall mid-body under --http-timeout 1) and --verify-header right / wrong / one-bit-off, --verify-output; 8% through the real CLI. Oracle: failure, or output == source; header changes rejected at open; pinned header checksum honoured.",
         "Trusted: R2 for header length / descriptor ranges, recording reader for 'fetched'. Expected header checksums are full-length (prefix equality is HashSum's documented semantics). Hash collisions at >= 8 bytes assumed absent.",
         "exhaustive fault enumeration (bit flips, truncations) + property-based corruption testing", "6 C04"),
 "C05": ("fault_enumeration",
         "Every crash point x {before, after, torn at every byte / 1,n/2,n-1} of pooled scenarios with <= 40 output writes on the instrumented in-memory output, generated histories of up to 3 interruptions plus error injection (EIO, ENOSPC, Ok(0), short, Pending), and the real CLI killed at write k with a torn prefix or given a failing write / ftruncate through the LD_PRELOAD shim; afterwards an un-faulted --seed-output run must complete with output == source, and a run with a failed write must not report success. Found F6 and shows F2 breaks re-runs.",
         "Crash model: byte-prefix tearing of the write in flight, earlier writes durable (no block reordering, no fsync model).",
         "crash-point / fault enumeration over generated scenarios (stateful histories)", "6 C05"),
 "C14": ("exploration",
         "The real CLI on the generated matrix {clone local, clone HTTP, compress} x output {absent, regular, block device, too-small block device} x flags {neither, --force-create, --seed-output, both} x archive {valid, 8 kinds of invalid} x --verify-header {absent, right, one bit off} x --seed {none, the output path itself, another file, stdin} with generated content; whether a case is a refusal is decided by the property's table; for refusals: exit != 0, output bytes/length unchanged or still absent, nothing else in the directory changed.",
         "Trusted: the refusal table transcribed from the property; block devices via the cfg(oll3_bita_verif) hook and, when losetup works, real /dev/loopN devices (variant 'loopdev', production binary).",
         "property-based testing of the real CLI over an enumerated refusal matrix", "6 C14"),
 "C15": ("exploration",
         "Structure-aware mutation under a valid checksum: conforming archives from the independent encoder get 1-3 field-level mutations (sizes, offsets, indexes, chunker parameters incl. 0 / extremes, enums, missing sub-messages, decompression bomb, garbage dictionary), the checksum is recomputed, and the whole reader pipeline runs step by step over local, honest-HTTP and misbehaving-HTTP transports (risky sizes and a sample through the real CLI in its own process); plus raw bytes, single-bit flips and truncations; cargo-fuzz target in the thorough tier. Violations: panic (by call site), signal, or a clock-free unboundedness predicate. 19 call sites fail today; each is an individually keyed known finding so that a new one is still a violation.",
         "Allocation judged by request sizes at the reader boundary and decompression output sizes, not RSS. CLI wall-clock timeouts are inconclusive, never violations.",
         "structure-aware mutation fuzzing (proptest + libFuzzer) with call-site keyed known findings", "6 C15"),
 "C16": ("exploration",
         "The real CLI under strace -f in every generated clone mode and compress configuration: the set of paths opened for writing / created / truncated / removed / renamed, resolved to absolute paths, must be within {output} for clone (nothing removed or renamed; archive and seeds read-only) and {archive} + self-created-and-removed temporaries for compress; recursive directory listings of the work dir and $TMPDIR before/after.",
         "Trusted: strace's syscall log (falls back to directory listings only, and says so, if ptrace is refused).",
         "property-based testing of the real CLI observed at the system-call boundary", "6 C16"),
 "C17": ("exploration",
         "Round trip through an independent encoder: generated sources are encoded with layouts bita's writer never emits (legacy magic, slack, permuted / descending / padded stored chunks, trailing bytes, unknown protobuf fields at every level, explicit zeros, unpacked rebuild order, raw-by-choice and compressed-larger-than-source chunks, metadata, foreign version, zero chunks, hash lengths 4..64); the reader must open them, report the encoder's inputs through every accessor, and clone exactly the source locally and over HTTP (bodies in one piece or in paced pieces of 1-300 bytes), with and without seeds, incl. a sample through the real CLI.",
         "Trusted: R1, R2, harness compressors; conformance = header.rs layout table + chunk_dictionary.proto as implemented by R2.",
         "property-based round-trip testing against an independent encoder", "6 C17"),
}

PLANNED = {
}

def main():
    checks = []
    for pid, (cat, text, note, tech, ref) in sorted(CHECKS.items()):
        checks.append({
            "property_id": pid,
            "quick_cmd": f"./check {pid} --tier quick",
            "thorough_cmd": f"./check {pid} --tier thorough",
            "evidence_file": f"/verif/evidence/{pid}.json",
            "replay_cmd_template": f"./check {pid} --replay {{path}}",
            "engine": "bverif",
            "level_claimed": {"category": cat, "text": text, "design_ref": f"DESIGN.md section {ref}"},
            "level_note": note,
            "technique": tech,
        })
    all_ids = [f"C{i:02d}" for i in range(1, 18)]
    na = [{"property_id": i, "reason": PLANNED.get(i, "check not built yet (planned in DESIGN.md section 6); will be claimed once its check exists")}
          for i in all_ids if i not in CHECKS]
    m = {
        "version": 1,
        "setup_cmd": "./check --setup",
        "hooks": {
            "guard": "oll3_bita_verif",
            "enable": "RUSTFLAGS=\"--cfg oll3_bita_verif\" cargo build --features zstd-compression,lzma-compression --target-dir /verif/target/cli-hooks (second CLI build, done by ./check; env BITA_VERIF_FORCE_BLOCKDEV=1 activates the hook at run time)",
            "baseline_off_cmd": "cd /repo && cargo test --workspace --no-fail-fast --offline",
            "source_commits": HOOK_COMMITS,
            "add_only": True,
        },
        "engines": [{
            "name": "bverif", "path": "/verif/harness",
            "serves_properties": sorted(CHECKS.keys()),
            "kind_free_text": "Rust binary: proptest TestRunner driven from a binary (seeded by VERIF_SEED), worker sub-processes, bounded-exhaustive enumerators, independent reference models (chunker, format codec, clone model, reorder interpreter), in-memory I/O doubles, scripted HTTP server, LD_PRELOAD I/O shim and strace for the real CLI, cargo-fuzz targets in /verif/fuzz for the thorough tier",
        }],
        "checks": checks,
        "not_applicable": na,
        "notes": "Exit codes: 0 held, 1 violation (VIOLATION line + replay file), 2 inconclusive (build failure / dead worker). Known findings: /verif/known_findings.json. See DESIGN.md.",
    }
    if not na:
        del m["not_applicable"]
    json.dump(m, open("/verif/MANIFEST.json", "w"), indent=1)
    print("MANIFEST.json written:", len(checks), "checks,", len(na), "not claimed")

if __name__ == "__main__":
    main()
