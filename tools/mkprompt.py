#!/usr/bin/env python3
"""tools/mkprompt.py <seed-id> [<seed-id>...]  — write /tmp/seed/prompt_<id>.txt for an independent sub-agent.

The prompt contains ONLY the property text (from properties.jsonl), the path of the agent's own scratch worktree and
one line per earlier attempt at the same property (what it needed to manifest, taken from DESIGN.md section 13.1), so
that a new attempt uses a different mechanism. Nothing else from /verif goes in."""
import json, re, sys, os

props = {}
for l in open('/verif/properties.jsonl'):
    p = json.loads(l); props[p['id']] = p
earlier = {}
for l in open('/verif/DESIGN.md'):
    m = re.match(r'\| (C\d\d)([a-z]) \| (.*?) \|', l)
    if m: earlier.setdefault(m.group(1), []).append(m.group(3))

EXTRA = {}
for a in sys.argv[1:]:
    if '=' in a:
        k, v = a.split('=', 1); EXTRA[k] = v
for sid in [a for a in sys.argv[1:] if '=' not in a]:
    pid = sid[:3]; p = props[pid]
    wt = f'/tmp/seed/wt_{sid}'; out = f'/tmp/seed/out_{sid}'
    os.makedirs(out, exist_ok=True)
    t = f"""You are helping to measure how sensitive a verification suite is (mutation-testing style work, authorised by the
owner of this checkout). You work ONLY inside the git worktree {wt} (a checkout of the open-source project oll3/bita: a Rust
CLI `bita` in src/ and a library `bitar` in bitar/). Do not read, list or touch /verif or /repo, and do not look for
other people's output under /tmp/seed other than your own two directories ({wt} and {out}).

THE PROPERTY (this is all you are given):

id: {pid}
title: {p['title']}
statement: {p['statement']}
quantified over: {p['quantifier']['text']}
why the existing tests cannot settle it: {p['why_tests_cant']}
code anchors: {json.dumps(p['anchors'].get('files', []))}

YOUR TASK

Write ONE change to the bita sources (bitar/src/** or src/**; not tests, not Cargo files) that BREAKS this property while
 (a) the workspace still compiles without new warnings-as-errors,
 (b) the existing test suite, unedited, still passes completely:
       cd {wt} && CARGO_NET_OFFLINE=true RUST_BACKTRACE=0 cargo test --workspace --no-fail-fast --offline
     (92 tests pass on the unchanged tree),
 (c) the change looks like something a developer could plausibly commit (an optimisation, a refactoring, a 'robustness'
     tweak, a clean-up) - not sabotage with magic constants, and
 (d) the breakage needs SOMETHING SPECIFIC to manifest: a particular interleaving or timing, a crash or I/O fault at a
     particular point, a multi-step sequence of operations, an unusual but legitimate input or option combination, or
     two cooperating sites that each look fine alone. It must NOT be something that ordinary use (compress a file, clone it)
     would expose at once.

Earlier attempts at this property used the following triggers. Use a DIFFERENT mechanism and a different region of the
code / input space from all of them:
"""
    for e in earlier.get(pid, []):
        t += f" - {e}\n"
    if sid in EXTRA:
        t += f"\nAdditional direction for this attempt: {EXTRA[sid]}\n"
    t += f"""
DELIVERABLES (all under {out}/):
 1. patch.diff  - `git -C {wt} diff` of the source change only (must apply with `git apply` to a clean checkout of the same commit).
 2. a demonstration: ONE Rust integration test file. Either `bitar/tests/<name>.rs` (library level; dev-dependencies of
    bitar are available: tokio, tempfile, hyper etc. as listed in bitar/Cargo.toml) or, if the real CLI is needed,
    `tests/<name>.rs` of the root crate driving the built binary (env!("CARGO_BIN_EXE_bita")). It must PASS on the unchanged
    tree and FAIL with your patch, deterministically if at all possible (if it depends on timing, make it loop until the
    failure shows and say how often it shows). Copy it to {out}/<name>.rs. It must not need the network or new crates.
 3. notes.md - what the change is, which clause of the property it breaks, exactly what is needed for it to manifest,
    where the demo file goes (bitar/tests or tests) and the command to run it, and the outcome you observed for:
    demo unpatched, demo patched, full suite patched.

RULES OF THE SANDBOX
 - No network. Always pass --offline to cargo and set CARGO_NET_OFFLINE=true. Set RUST_BACKTRACE=0.
 - Never put backticks inside double-quoted shell strings. Use the file tools to write files.
 - Build output stays inside {wt}/target. Do not create other worktrees or copies.
 - When you are done: remove your demo file from the worktree and run `git -C {wt} checkout -- .` so the worktree is clean
   (the patch is saved in {out}). Do not remove the worktree itself.
 - Verify (b) and the two demo outcomes yourself before reporting. Report in a few lines: the idea, the trigger, the results.
"""
    open(f'/tmp/seed/prompt_{sid}.txt', 'w').write(t)
    print(f'/tmp/seed/prompt_{sid}.txt')
