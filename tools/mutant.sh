#!/usr/bin/env bash
# tools/mutant.sh <patch.diff> <ID> [<ID>...]  — apply a patch to /repo, run quick checks, restore /repo.
# Environment: VERIF_ONLY etc. are passed through. Prints one summary line per check.
set -u
P=$(realpath "$1"); shift
cd /verif
# default: /repo itself. MUT_REPO=<scratch worktree> applies the patch there instead (VERIF_REPO mode), so /repo
# stays untouched and other runs are not disturbed.
R=${MUT_REPO:-/repo}
if [ "$R" != /repo ]; then export VERIF_REPO=$R; git -C $R checkout -q --detach $(git -C /repo rev-parse HEAD) 2>/dev/null; fi
if ! git -C $R diff --quiet; then echo "$R has uncommitted changes; refusing" >&2; exit 2; fi
EVBAK=$(mktemp -d /tmp/evbak.XXXXXX); cp -a /verif/evidence/. $EVBAK/
git -C $R apply "$P" || { echo "patch does not apply: $P" >&2; exit 2; }
trap 'git -C $R checkout -- . ; cp -a $EVBAK/. /verif/evidence/; rm -rf $EVBAK; mkdir -p /tmp/mutant_replays/$(basename $P .diff); cp -r /verif/replays/*/new/* /tmp/mutant_replays/$(basename $P .diff)/ 2>/dev/null; rm -rf /verif/replays/*/new' EXIT
for id in "$@"; do
  t0=$(date +%s)
  out=$(./check "$id" --tier "${TIER:-quick}" 2>&1); rc=$?
  t1=$(date +%s)
  echo "MUTANT $(basename "$P") check=$id exit=$rc time=$((t1-t0))s $(echo "$out" | grep -m1 'failure:' | cut -c1-220)"
  [ -n "${VERBOSE:-}" ] && echo "$out" | tail -15
done
