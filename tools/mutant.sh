#!/usr/bin/env bash
# tools/mutant.sh <patch.diff> <ID> [<ID>...]  — apply a patch to /repo, run quick checks, restore /repo.
# Environment: VERIF_ONLY etc. are passed through. Prints one summary line per check.
set -u
P=$(realpath "$1"); shift
cd /verif
if ! git -C /repo diff --quiet; then echo "/repo has uncommitted changes; refusing" >&2; exit 2; fi
EVBAK=$(mktemp -d /tmp/evbak.XXXXXX); cp -a /verif/evidence/. $EVBAK/
git -C /repo apply "$P" || { echo "patch does not apply: $P" >&2; exit 2; }
trap 'git -C /repo checkout -- . ; cp -a $EVBAK/. /verif/evidence/; rm -rf $EVBAK; mkdir -p /tmp/mutant_replays/$(basename $P .diff); cp -r /verif/replays/*/new/* /tmp/mutant_replays/$(basename $P .diff)/ 2>/dev/null; rm -rf /verif/replays/*/new' EXIT
for id in "$@"; do
  t0=$(date +%s)
  out=$(./check "$id" --tier "${TIER:-quick}" 2>&1); rc=$?
  t1=$(date +%s)
  echo "MUTANT $(basename "$P") check=$id exit=$rc time=$((t1-t0))s $(echo "$out" | grep -m1 'failure:' | cut -c1-220)"
  [ -n "${VERBOSE:-}" ] && echo "$out" | tail -15
done
