#!/usr/bin/env bash
# tools/verify_seed.sh <seed-out-dir> <demo-file.rs> <test-name> [extra cargo args]
# Confirms in the scratch worktree /tmp/seed/verify (at /repo HEAD): demo passes unpatched, fails patched,
# and the unedited 92-test suite passes with the patch.
set -u
D=$(realpath "$1"); DEMO=$2; T=$3; shift 3
W=/tmp/seed/verify
cd $W || exit 2
git checkout -q -- . ; git clean -fdq bitar/tests tests 2>/dev/null
git -C $W checkout -q --detach $(git -C /repo rev-parse HEAD)
export CARGO_NET_OFFLINE=true RUST_BACKTRACE=0
cp "$D/$DEMO" bitar/tests/$DEMO
echo "== demo on unchanged code"
cargo test -p bitar --offline --test $T "$@" 2>&1 | grep -E "^test result|FAILED|panicked" | head -5
git apply "$D/patch.diff" || { echo "PATCH DOES NOT APPLY on HEAD"; exit 1; }
echo "== demo with patch"
cargo test -p bitar --offline --test $T "$@" 2>&1 | grep -E "^test result|FAILED" | head -8
rm -f bitar/tests/$DEMO
echo "== full suite with patch"
cargo test --workspace --no-fail-fast --offline 2>&1 | grep -E "^test result" | awk '{p+=$4; f+=$6} END {print "passed",p,"failed",f}'
git checkout -q -- .
