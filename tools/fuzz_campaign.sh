#!/usr/bin/env bash
# tools/fuzz_campaign.sh <ID> <target> <runs-per-process> <processes> [max input length, default 3000]
# Builds the cargo-fuzz targets from /repo's current tree, runs <processes> libFuzzer processes (seeds VERIF_SEED+i,
# fresh corpus + a few golden files), writes /verif/target/fuzz_stats/<ID>.json. Exit 0 = no crash, 1 = crash
# (violation; the glue wrote a JSON replay file), 2 = could not build, or a process hit a timeout / memory limit.
set -u
ID=$1; TGT=$2; RUNS=$3; PROCS=$4; MAXLEN=${5:-3000}
V=$(cd "$(dirname "$0")/.." && pwd); T=$V/target
export CARGO_NET_OFFLINE=true RUST_BACKTRACE=0
REPO=${VERIF_REPO:-/repo}; if [ "$REPO" != /repo ]; then T=$V/target/alt-$(echo "$REPO" | md5sum | cut -c1-8); mkdir -p $V/fuzz/.cargo; printf 'paths = ["%s/bitar"]\n' "$REPO" > $V/fuzz/.cargo/config.toml; else rm -f $V/fuzz/.cargo/config.toml; fi
mkdir -p $T/fuzz_stats
(cd $V/fuzz && [ -f Cargo.lock ] || cp $V/harness/Cargo.lock .; cargo +nightly fuzz build --fuzz-dir $V/fuzz --target-dir $T/fuzz >$T/build.log.fuzz 2>&1) || { echo "BUILD FAILURE (fuzz targets)"; grep -E "^error" -A8 $T/build.log.fuzz | head -40; exit 2; }
BIN=$T/fuzz/x86_64-unknown-linux-gnu/release/$TGT
W=$T/fuzzwork/$ID; rm -rf $W; mkdir -p $W
SEED=${VERIF_SEED:-1}
t0=$(date +%s)
for i in $(seq 1 $PROCS); do
  mkdir -p $W/corpus$i $W/art$i
  if [ "$ID" = C15 ]; then
    n=0; for f in $REPO/bitar/tests/resources/*.cba; do n=$((n+1)); (printf '\000'; head -c 1500 "$f") > $W/corpus$i/golden$n; done
  fi
  ( cd $W && $BIN corpus$i -runs=$RUNS -seed=$((SEED*100+i)) -len_control=0 -max_len=$MAXLEN -artifact_prefix=art$i/ -print_final_stats=1 >log$i 2>&1; echo $? >rc$i ) &
done
wait
t1=$(date +%s)
crashes=0; inconcl=0; execs=0; cov=0; corp=0
for i in $(seq 1 $PROCS); do
  rc=$(cat $W/rc$i)
  if [ "$rc" != 0 ]; then
    # the in-target oracle (or the C15 hang rule) prints a VIOLATION line; a libFuzzer timeout / out-of-memory stop or the
    # watchdog's exit code 3 without such a line is inconclusive, never a violation
    if grep -q "^VIOLATION property=" $W/log$i; then crashes=$((crashes+1))
    elif [ "$rc" = 3 ] || grep -qE "libFuzzer: (timeout|out-of-memory)" $W/log$i; then inconcl=$((inconcl+1))
    else crashes=$((crashes+1)); fi
  fi
  e=$(grep -E "stat::number_of_executed_units" $W/log$i | awk '{print $2}'); execs=$((execs+${e:-0}))
  c=$(grep -oE "cov: [0-9]+" $W/log$i | tail -1 | awk '{print $2}'); [ "${c:-0}" -gt "$cov" ] && cov=$c
  k=$(ls $W/corpus$i | wc -l); corp=$((corp+k))
done
viol=$(grep -h "^VIOLATION property=" $W/log* 2>/dev/null | sort -u | head -5)
python3 - "$ID" "$TGT" "$execs" "$cov" "$corp" "$crashes" "$((t1-t0))" "$PROCS" "$RUNS" <<PY > $T/fuzz_stats/$ID.json
import json,sys
a=sys.argv
viol="""$viol""".strip().splitlines()
print(json.dumps({"property":a[1],"target":a[2],"executions":int(a[3]),"max_edge_coverage":int(a[4]),"corpus_files":int(a[5]),"crashing_processes":int(a[6]),"wall_s":int(a[7]),"processes":int(a[8]),"runs_per_process":int(a[9]),"violations":viol}))
PY
echo "fuzz $TGT: $execs executions in $((t1-t0))s, cov $cov, corpus $corp, crashing processes $crashes"
if [ $crashes -gt 0 ]; then
  for i in $(seq 1 $PROCS); do [ "$(cat $W/rc$i)" != 0 ] && grep -E "VIOLATION|panicked|ERROR: " $W/log$i | head -5; done
  exit 1
fi
if [ $inconcl -gt 0 ]; then
  echo "INCONCLUSIVE: $inconcl fuzz process(es) stopped on a libFuzzer timeout / memory limit or the hang watchdog without an oracle failure"
  for i in $(seq 1 $PROCS); do grep -E "INCONCLUSIVE-HANG|ERROR: libFuzzer" $W/log$i | cut -c1-300 | head -2; done
  exit 2
fi
exit 0
