#!/usr/bin/env bash
# tools/run_all.sh [tier] — run every registered check once; print one line per check.
cd "$(dirname "$0")/.."
TIER=${1:-quick}
# under `vp run --with-repo` use the repository snapshot, so that edits to /repo during the run do not disturb it
[ -n "${VP_RUN_REPO:-}" ] && export VERIF_REPO=$VP_RUN_REPO
for id in C01 C02 C03 C04 C05 C06 C07 C08 C09 C10 C11 C12 C13 C14 C15 C16 C17; do
  t0=$(date +%s)
  out=$(./check $id --tier $TIER 2>&1); rc=$?
  t1=$(date +%s)
  echo "$id exit=$rc $((t1-t0))s $(echo "$out" | grep -E "^$id $TIER" )"
  [ $rc -ne 0 ] && echo "$out" | grep -E "failure|VIOLATION|INCONCLUSIVE" | head -5
done
